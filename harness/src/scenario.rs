//! The `scenario` op on the real crate: template documents and rule documents are rendered to YAML
//! text, loaded through `Compiler`, an `Engine` is built and the events are scanned in order.
use crate::canon::{compiler_err_kind, sr_json};
use crate::doc::{rules_yaml, yq};
use crate::event::event_from_json;
use gene::{Compiler, Engine};
use serde_json::{json, Value};
use std::panic::{catch_unwind, AssertUnwindSafe};

pub fn templates_yaml(docs: &Value) -> String {
    let mut o = String::new();
    if let Some(ds) = docs.as_array() {
        for d in ds {
            o.push_str("---\n");
            let items: Vec<String> = d
                .as_array()
                .map(|a| a.iter().map(|e| format!("{}: {}", yq(e[0].as_str().unwrap_or("")), yq(e[1].as_str().unwrap_or("")))).collect())
                .unwrap_or_default();
            o.push_str(&format!("{{{}}}\n", items.join(", ")));
        }
    }
    o
}

fn err_kind(d: &str) -> &'static str {
    for k in ["FieldNotFound", "IncompatibleTypes", "RuleNotFound", "UnknowOperand"] {
        if d.contains(k) {
            return k;
        }
    }
    "other"
}

pub fn scan_outcome<E: gene::Event>(eng: &mut Engine, ev: &E) -> Value {
    match catch_unwind(AssertUnwindSafe(|| eng.scan(ev))) {
        Err(_) => json!("panic"),
        Ok(Ok(sr)) => json!({ "ok": sr_json(&sr) }),
        Ok(Err((sr, e))) => {
            let name = match &e {
                gene::Error::Rule(gene::rules::Error::Wrap(name, _)) => json!(name),
                _ => Value::Null,
            };
            json!({ "err": { "sr": sr_json(&sr), "rule": name, "kind": err_kind(&format!("{e:?}")) } })
        }
    }
}

/// returns the compiler after loading, or the canonical load error
pub fn load(case: &Value) -> Result<Compiler, Value> {
    let r = catch_unwind(AssertUnwindSafe(|| {
        let mut c = Compiler::new();
        if let Some(t) = case.get("templates") {
            if !t.is_null() {
                c.load_templates_from_str(templates_yaml(t)).map_err(|e| json!({"load": compiler_err_kind(&e)}))?;
            }
        }
        let rules: Vec<Value> = case["rules"].as_array().cloned().unwrap_or_default();
        // the same documents, in one of several YAML dresses and through one of the public ways of loading them
        // (chosen by the shape of the case, so that a case always takes the same road)
        let shape = rules.len() as u64 * 7 + case["events"].as_array().map(|a| a.len()).unwrap_or(0) as u64 + rules.first().and_then(|r| r["name"].as_str()).map(|n| n.len() as u64).unwrap_or(0);
        let style = [0u64, 0, 1, 2, 5, 9, 3, 0, 16, 48, 49, 21][(shape % 12) as usize];
        let text = crate::doc::rules_yaml_styled(&rules, style);
        match (shape / 12) % 3 {
            0 => c.load_rules_from_str(&text).map_err(|e| json!({"load": compiler_err_kind(&e)}))?,
            1 => c.load_rules_from_reader(std::io::Cursor::new(text.into_bytes())).map_err(|e| json!({"load": compiler_err_kind(&e)}))?,
            _ => {
                // document by document: `Rule::deserialize_reader`, then `Compiler::load` for each rule in order
                for r in gene::Rule::deserialize_reader(std::io::Cursor::new(text.into_bytes())) {
                    let r = r.map_err(|_| json!({"load": "serde"}))?;
                    c.load(r).map_err(|e| json!({"load": compiler_err_kind(&e)}))?;
                }
            }
        }
        Ok(c)
    }));
    match r {
        Err(_) => Err(json!({"load": "panic"})),
        Ok(x) => x,
    }
}

pub fn build(c: Compiler) -> Result<Engine, Value> {
    match catch_unwind(AssertUnwindSafe(|| Engine::try_from(c).map_err(|e| json!({"compile": compiler_err_kind(&e)})))) {
        Err(_) => Err(json!({"compile": "panic"})),
        Ok(x) => x,
    }
}

pub fn exec(case: &Value) -> Value {
    let c = match load(case) {
        Ok(c) => c,
        Err(e) => return e,
    };
    // every third case: the rules as the compiler holds them are written out (`Serialize`), read back into a fresh
    // compiler, and the engine built from that must answer every event like the first one (a dumped rule set is the
    // rule set)
    let n_rules0 = case["rules"].as_array().map(|a| a.len()).unwrap_or(0);
    let n_events0 = case["events"].as_array().map(|a| a.len()).unwrap_or(0);
    let mut reloaded: Option<Engine> = None;
    if (n_rules0 * 5 + n_events0) % 3 == 0 {
        let mut c2 = c.clone();
        let dumped = catch_unwind(AssertUnwindSafe(|| -> Option<String> {
            let rs = c2.rules().ok()?;
            let mut t = String::new();
            for r in rs {
                t.push_str("---\n");
                t.push_str(&serde_yaml::to_string(r).ok()?);
            }
            Some(t)
        }));
        // (nothing to dump when every rule is disabled: an empty text is not a rule file)
        if let Ok(Some(text)) = dumped.map(|t| t.filter(|t| !t.is_empty())) {
            let mut c3 = Compiler::new();
            match catch_unwind(AssertUnwindSafe(|| c3.load_rules_from_str(&text).ok().and_then(|_| Engine::try_from(c3).ok()))) {
                Ok(Some(e)) => reloaded = Some(e),
                Ok(None) => return json!({"dump-reload": "the dumped rules do not load / compile", "text": text}),
                Err(_) => return json!({"dump-reload": "panic"}),
            }
        }
    }
    let mut eng = match build(c) {
        Ok(e) => e,
        Err(e) => return e,
    };
    // a clone is as good as the original: every other case scans with one
    let n_rules = case["rules"].as_array().map(|a| a.len()).unwrap_or(0);
    let n_events = case["events"].as_array().map(|a| a.len()).unwrap_or(0);
    if (n_rules + n_events) % 2 == 1 {
        eng = eng.clone();
    }
    let mut outs = vec![];
    // the engine as built, never scanned with: a clone of it answers each event alone, and the engine that has seen all
    // the earlier events must answer the same, to the name of the rule an error mentions
    let pristine = if n_events <= 64 { Some(eng.clone()) } else { None };
    for ev in case["events"].as_array().cloned().unwrap_or_default() {
        match event_from_json(&ev) {
            Ok(ev) => {
                let o = scan_outcome(&mut eng, &ev);
                if let Some(p) = &pristine {
                    let fresh = scan_outcome(&mut p.clone(), &ev);
                    if fresh != o {
                        outs.push(json!({"history-dependent": {"this engine": o, "an engine that has scanned nothing": fresh}}));
                        continue;
                    }
                }
                if let Some(e2) = reloaded.as_mut() {
                    let o2 = scan_outcome(e2, &ev);
                    // which of several failing rules an error names may follow hash order: compared without it
                    let norm = |v: &Value| -> Value {
                        let mut v = v.clone();
                        if let Some(e) = v.get_mut("err").and_then(|e| e.as_object_mut()) {
                            e.remove("rule");
                            e.remove("kind");
                        }
                        v
                    };
                    if norm(&o2) != norm(&o) {
                        outs.push(json!({"dump-reload-differs": {"loaded": o, "dumped and reloaded": o2}}));
                        continue;
                    }
                }
                outs.push(o)
            }
            Err(e) => outs.push(json!({ "badevent": e })),
        }
    }
    // what the engine holds, through the public getters
    let rules: Vec<Value> = eng.compiled_rules().iter().map(|r| json!([r.name(), r.ty().as_str(), r.severity(), r.is_filter(), r.is_detection()])).collect();
    json!({ "scans": outs, "engine": {"count": eng.rules_count(), "is_empty": eng.is_empty(), "rules": rules} })
}
