//! The `scenario` op on the real crate: template documents and rule documents are rendered to YAML
//! text, loaded through `Compiler`, an `Engine` is built and the events are scanned in order.
use crate::canon::{compiler_err_kind, sr_json};
use crate::doc::{rules_yaml, yq};
use crate::event::event_from_json;
use gene::{Compiler, Engine};
use serde_json::{json, Value};
use std::panic::{catch_unwind, AssertUnwindSafe};

pub fn templates_yaml(docs: &Value) -> String {
    let mut o = String::new();
    if let Some(ds) = docs.as_array() {
        for d in ds {
            o.push_str("---\n");
            let items: Vec<String> = d
                .as_array()
                .map(|a| a.iter().map(|e| format!("{}: {}", yq(e[0].as_str().unwrap_or("")), yq(e[1].as_str().unwrap_or("")))).collect())
                .unwrap_or_default();
            o.push_str(&format!("{{{}}}\n", items.join(", ")));
        }
    }
    o
}

fn err_kind(d: &str) -> &'static str {
    for k in ["FieldNotFound", "IncompatibleTypes", "RuleNotFound", "UnknowOperand"] {
        if d.contains(k) {
            return k;
        }
    }
    "other"
}

pub fn scan_outcome<E: gene::Event>(eng: &mut Engine, ev: &E) -> Value {
    match catch_unwind(AssertUnwindSafe(|| eng.scan(ev))) {
        Err(_) => json!("panic"),
        Ok(Ok(sr)) => json!({ "ok": sr_json(&sr) }),
        Ok(Err((sr, e))) => {
            let name = match &e {
                gene::Error::Rule(gene::rules::Error::Wrap(name, _)) => json!(name),
                _ => Value::Null,
            };
            json!({ "err": { "sr": sr_json(&sr), "rule": name, "kind": err_kind(&format!("{e:?}")) } })
        }
    }
}

/// returns the compiler after loading, or the canonical load error
pub fn load(case: &Value) -> Result<Compiler, Value> {
    let r = catch_unwind(AssertUnwindSafe(|| {
        let mut c = Compiler::new();
        if let Some(t) = case.get("templates") {
            if !t.is_null() {
                c.load_templates_from_str(templates_yaml(t)).map_err(|e| json!({"load": compiler_err_kind(&e)}))?;
            }
        }
        let rules: Vec<Value> = case["rules"].as_array().cloned().unwrap_or_default();
        // the same documents, in one of several YAML dresses and through one of the public ways of loading them
        // (chosen by the shape of the case, so that a case always takes the same road)
        let shape = rules.len() as u64 * 7 + case["events"].as_array().map(|a| a.len()).unwrap_or(0) as u64 + rules.first().and_then(|r| r["name"].as_str()).map(|n| n.len() as u64).unwrap_or(0);
        let style = [0u64, 0, 1, 2, 5, 9, 3, 0, 16, 48, 49, 21][(shape % 12) as usize];
        let text = crate::doc::rules_yaml_styled(&rules, style);
        match (shape / 12) % 3 {
            0 => c.load_rules_from_str(&text).map_err(|e| json!({"load": compiler_err_kind(&e)}))?,
            1 => c.load_rules_from_reader(std::io::Cursor::new(text.into_bytes())).map_err(|e| json!({"load": compiler_err_kind(&e)}))?,
            _ => {
                // document by document: `Rule::deserialize_reader`, then `Compiler::load` for each rule in order
                for r in gene::Rule::deserialize_reader(std::io::Cursor::new(text.into_bytes())) {
                    let r = r.map_err(|_| json!({"load": "serde"}))?;
                    c.load(r).map_err(|e| json!({"load": compiler_err_kind(&e)}))?;
                }
            }
        }
        Ok(c)
    }));
    match r {
        Err(_) => Err(json!({"load": "panic"})),
        Ok(x) => x,
    }
}

pub fn build(c: Compiler) -> Result<Engine, Value> {
    match catch_unwind(AssertUnwindSafe(|| Engine::try_from(c).map_err(|e| json!({"compile": compiler_err_kind(&e)})))) {
        Err(_) => Err(json!({"compile": "panic"})),
        Ok(x) => x,
    }
}

pub fn exec(case: &Value) -> Value {
    let c = match load(case) {
        Ok(c) => c,
        Err(e) => return e,
    };
    let mut eng = match build(c) {
        Ok(e) => e,
        Err(e) => return e,
    };
    // a clone is as good as the original: every other case scans with one
    let n_rules = case["rules"].as_array().map(|a| a.len()).unwrap_or(0);
    let n_events = case["events"].as_array().map(|a| a.len()).unwrap_or(0);
    if (n_rules + n_events) % 2 == 1 {
        eng = eng.clone();
    }
    let mut outs = vec![];
    for ev in case["events"].as_array().cloned().unwrap_or_default() {
        match event_from_json(&ev) {
            Ok(ev) => outs.push(scan_outcome(&mut eng, &ev)),
            Err(e) => outs.push(json!({ "badevent": e })),
        }
    }
    // what the engine holds, through the public getters
    let rules: Vec<Value> = eng.compiled_rules().iter().map(|r| json!([r.name(), r.ty().as_str(), r.severity(), r.is_filter(), r.is_detection()])).collect();
    json!({ "scans": outs, "engine": {"count": eng.rules_count(), "is_empty": eng.is_empty(), "rules": rules} })
}
