/-! scratch prototype: quantifier evaluation (condition.rs:93-180): count meaning, lazy meaning,
    order dependence of hash-order iteration, order independence of name-order iteration -/
namespace Quant

abbrev Name := List Char

inductive Res | ok (b : Bool) | err (e : Nat)
  deriving DecidableEq, Repr

/-- operands in iteration order; evaluating an operand is pure, so its outcome is attached -/
abbrev Ops := List (Name × Res)

/-! transcriptions of the loops (early return on `?` and on the deciding value) -/
def allOf : List Res → Res
  | [] => .ok true
  | .err e :: _ => .err e
  | .ok false :: _ => .ok false
  | .ok true :: r => allOf r

def anyOf : List Res → Res
  | [] => .ok false
  | .err e :: _ => .err e
  | .ok true :: _ => .ok true
  | .ok false :: r => anyOf r

def noneOf : List Res → Res
  | [] => .ok true
  | .err e :: _ => .err e
  | .ok true :: _ => .ok false
  | .ok false :: r => noneOf r

/-- `NOfThem(n)`: counter `c`, early `Ok(true)` when `c >= n`, final `Ok(c >= n)` -/
def nOfGo (n : Nat) : Nat → List Res → Res
  | c, [] => .ok (Nat.ble n c)
  | _, .err e :: _ => .err e
  | c, .ok true :: r => if Nat.ble n (c + 1) then .ok true else nOfGo n (c + 1) r
  | c, .ok false :: r => nOfGo n c r
def nOf (n : Nat) (l : List Res) : Res := nOfGo n 0 l

def sel (p : Name) (ops : Ops) : List Res := (ops.filter (fun o => p.isPrefixOf o.1)).map (·.2)

/-! ### count meaning when no operand errors (C02) -/
def NoErr (l : List Res) : Prop := ∀ r ∈ l, ∃ b, r = .ok b
def trues (l : List Res) : Nat := (l.filter (· == .ok true)).length

theorem trues_cons_true (l : List Res) : trues (.ok true :: l) = trues l + 1 := by simp [trues]
theorem trues_cons_false (l : List Res) : trues (.ok false :: l) = trues l := by simp [trues]
theorem trues_le (l : List Res) : trues l ≤ l.length := List.length_filter_le _ _

theorem allOf_count (l : List Res) (h : NoErr l) : allOf l = .ok (trues l == l.length) := by
  induction l with
  | nil => rfl
  | cons r l ih =>
    obtain ⟨b, rfl⟩ := h r (by simp)
    have ih := ih (fun r hr => h r (by simp [hr]))
    have hle := trues_le l
    cases b with
    | true => simp [allOf, ih, trues_cons_true]
    | false =>
      simp only [allOf, trues_cons_false, List.length_cons]
      have : (trues l == l.length + 1) = false := by simp; omega
      rw [this]

theorem anyOf_count (l : List Res) (h : NoErr l) : anyOf l = .ok (Nat.ble 1 (trues l)) := by
  induction l with
  | nil => rfl
  | cons r l ih =>
    obtain ⟨b, rfl⟩ := h r (by simp)
    have ih := ih (fun r hr => h r (by simp [hr]))
    cases b with
    | true => simp [anyOf, trues_cons_true, Nat.ble_eq]
    | false => simp only [anyOf, ih, trues_cons_false]

theorem noneOf_count (l : List Res) (h : NoErr l) : noneOf l = .ok (trues l == 0) := by
  induction l with
  | nil => rfl
  | cons r l ih =>
    obtain ⟨b, rfl⟩ := h r (by simp)
    have ih := ih (fun r hr => h r (by simp [hr]))
    cases b with
    | true => simp [noneOf, trues_cons_true]
    | false => simp only [noneOf, ih, trues_cons_false]

theorem nOfGo_count (n : Nat) (l : List Res) (h : NoErr l) (c : Nat) (hc : c < n) :
    nOfGo n c l = .ok (Nat.ble n (c + trues l)) := by
  induction l generalizing c with
  | nil => simp [nOfGo, trues]
  | cons r l ih =>
    obtain ⟨b, rfl⟩ := h r (by simp)
    have ih := ih (fun r hr => h r (by simp [hr]))
    cases b with
    | true =>
      simp only [nOfGo, trues_cons_true]
      by_cases hcn : n ≤ c + 1
      · have h1 : Nat.ble n (c + 1) = true := Nat.ble_eq.mpr hcn
        have h2 : Nat.ble n (c + (trues l + 1)) = true := Nat.ble_eq.mpr (by omega)
        simp [h1, h2]
      · have h1 : Nat.ble n (c + 1) = false := by
          cases hb : Nat.ble n (c + 1) with
          | false => rfl
          | true => exact absurd (Nat.ble_eq.mp hb) hcn
        simp only [h1]
        rw [ih (c + 1) (by omega)]
        have : c + 1 + trues l = c + (trues l + 1) := by omega
        rw [this]; rfl
    | false =>
      simp only [nOfGo, trues_cons_false]
      exact ih c hc

/-- N ≥ 1 means "at least N true", also when N exceeds the group size -/
theorem nOf_count (n : Nat) (hn : 1 ≤ n) (l : List Res) (h : NoErr l) :
    nOf n l = .ok (Nat.ble n (trues l)) := by
  unfold nOf; rw [nOfGo_count n l h 0 (by omega)]; simp

/-- without errors the outcome does not depend on the iteration order -/
theorem trues_perm {l l' : List Res} (h : l.Perm l') : trues l = trues l' := by
  unfold trues; exact (h.filter _).length_eq

/-! ### lazy meaning (C10): the first element that is not the neutral value decides -/
theorem allOf_lazy (l : List Res) :
    allOf l = match l.find? (· ≠ .ok true) with | none => .ok true | some r => r := by
  induction l with
  | nil => rfl
  | cons r l ih =>
    cases r with
    | err e => simp [allOf]
    | ok b => cases b <;> simp [allOf, ih]

/-! ### hash-order iteration is observable (C10/C11 defect): a false and an erroring operand -/
theorem allOf_order_dependent :
    ∃ l l' : List Res, l.Perm l' ∧ allOf l ≠ allOf l' :=
  ⟨[.ok false, .err 0], [.err 0, .ok false], List.Perm.swap _ _ _, by decide⟩

/-! ### name-order iteration (BTreeMap, the planned repair) is order independent -/
def leName (a b : Name × Res) : Bool := decide (a.1 ≤ b.1)

def sorted (ops : Ops) : Ops := ops.mergeSort leName

theorem leName_trans (a b c : Name × Res) : leName a b = true → leName b c = true → leName a c = true := by
  simp only [leName, decide_eq_true_eq]; exact List.le_trans
theorem leName_total (a b : Name × Res) : (leName a b || leName b a) = true := by
  simp only [leName, Bool.or_eq_true, decide_eq_true_eq]; exact List.le_total _ _

/-- two maps with the same entries (distinct names) iterate identically once sorted -/
theorem sorted_perm_invariant (ops ops' : Ops) (hp : ops.Perm ops')
    (hnd : (ops.map (·.1)).Nodup) : sorted ops = sorted ops' := by
  have p1 : (sorted ops).Perm ops := List.mergeSort_perm _ _
  have p2 : (sorted ops').Perm ops' := List.mergeSort_perm _ _
  have pp : (sorted ops).Perm (sorted ops') := p1.trans (hp.trans p2.symm)
  apply List.Perm.eq_of_pairwise (le := fun a b => leName a b = true) _
    (List.pairwise_mergeSort leName_trans leName_total _)
    (List.pairwise_mergeSort leName_trans leName_total _) pp
  intro a b ha hb hab hba
  have ha' : a ∈ ops := p1.mem_iff.mp ha
  have hb' : b ∈ ops := hp.mem_iff.mpr (p2.mem_iff.mp hb)
  have hname : a.1 = b.1 := by
    simp only [leName, decide_eq_true_eq] at hab hba
    exact List.le_antisymm hab hba
  -- distinct names: same name ⇒ same entry
  clear hab hba ha hb p1 p2 pp hp
  induction ops with
  | nil => cases ha'
  | cons x xs ih =>
    simp only [List.map_cons, List.nodup_cons] at hnd
    rcases List.mem_cons.mp ha' with rfl | ha''
    · rcases List.mem_cons.mp hb' with rfl | hb''
      · rfl
      · exact absurd (List.mem_map.mpr ⟨b, hb'', hname.symm⟩) hnd.1
    · rcases List.mem_cons.mp hb' with rfl | hb''
      · exact absurd (List.mem_map.mpr ⟨a, ha'', hname⟩) hnd.1
      · exact ih hnd.2 ha'' hb''

theorem allOf_sorted_deterministic (ops ops' : Ops) (hp : ops.Perm ops') (hnd : (ops.map (·.1)).Nodup)
    (p : Name) : allOf (sel p (sorted ops)) = allOf (sel p (sorted ops')) := by
  rw [sorted_perm_invariant ops ops' hp hnd]

-- non-vacuity / examples from the property text
example : nOf 2 [.ok true, .ok false, .ok true] = .ok true := by decide
example : nOf 5 [.ok true, .ok true] = .ok false := by decide
example : allOf (sel "$zz".toList [("$a".toList, .ok false)]) = .ok true := by decide       -- empty group
example : (sel "$a".toList [("$a".toList, .ok true), ("$ab".toList, .ok false), ("$b".toList, .ok true)]).length = 2 := by decide
end Quant
