/-! scratch prototype: a concrete condition evaluator (condition.rs:86-196 shape) consults the verdict
    memo only at the names `compile_into` puts into `depends` — the `Local` hypothesis of Memo/Scan/Closure -/
namespace Local

abbrev Name := List Char
inductive Res | ok (b : Bool) | err (e : Nat)  deriving DecidableEq, Repr

inductive Match
  | field (id : Nat)        -- direct/indirect field test; outcome supplied by the event
  | rule (name : Name)      -- rule(x)

inductive BOp | and | or
inductive Expr
  | var (n : Name) | allOfThem | allOfVars (p : Name) | anyOfThem | anyOfVars (p : Name)
  | noneOfThem | noneOfVars (p : Name) | nOfThem (n : Nat) | nOfVars (n : Nat) (p : Name)
  | bin (l : Expr) (o : BOp) (r : Expr) | neg (e : Expr) | none

abbrev Ops := List (Name × Match)     -- CompiledRule.matches in iteration order

def evalMatch (ft : Nat → Res) (memo : Name → Option Bool) : Match → Res
  | .field i => ft i
  | .rule n => match memo n with | some b => .ok b | none => .err 0    -- RuleNotFound

def allOf : List Res → Res
  | [] => .ok true | .err e :: _ => .err e | .ok false :: _ => .ok false | .ok true :: r => allOf r
def anyOf : List Res → Res
  | [] => .ok false | .err e :: _ => .err e | .ok true :: _ => .ok true | .ok false :: r => anyOf r
def noneOf : List Res → Res
  | [] => .ok true | .err e :: _ => .err e | .ok true :: _ => .ok false | .ok false :: r => noneOf r
def nOfGo (n : Nat) : Nat → List Res → Res
  | c, [] => .ok (Nat.ble n c)
  | _, .err e :: _ => .err e
  | c, .ok true :: r => if Nat.ble n (c + 1) then .ok true else nOfGo n (c + 1) r
  | c, .ok false :: r => nOfGo n c r

/-- NB: Rust evaluates lazily while iterating; evaluating the operand list first and then folding gives the
    same result only if evaluation is pure and errors are values — which they are here (`Res`). -/
def vals (ft : Nat → Res) (memo : Name → Option Bool) (ops : Ops) (p : Option Name) : List Res :=
  (ops.filter (fun o => match p with | none => true | some q => q.isPrefixOf o.1)).map (fun o => evalMatch ft memo o.2)

def evalExpr (ft : Nat → Res) (memo : Name → Option Bool) (ops : Ops) : Expr → Res
  | .var n => match ops.lookup n with | some m => evalMatch ft memo m | none => .err 1   -- UnknownOperand
  | .allOfThem => allOf (vals ft memo ops none)
  | .allOfVars p => allOf (vals ft memo ops (some p))
  | .anyOfThem => anyOf (vals ft memo ops none)
  | .anyOfVars p => anyOf (vals ft memo ops (some p))
  | .noneOfThem => noneOf (vals ft memo ops none)
  | .noneOfVars p => noneOf (vals ft memo ops (some p))
  | .nOfThem n => nOfGo n 0 (vals ft memo ops none)
  | .nOfVars n p => nOfGo n 0 (vals ft memo ops (some p))
  | .bin l .and r => match evalExpr ft memo ops l with
    | .err e => .err e | .ok false => .ok false | .ok true => evalExpr ft memo ops r
  | .bin l .or r => match evalExpr ft memo ops l with
    | .err e => .err e | .ok true => .ok true | .ok false => evalExpr ft memo ops r
  | .neg e => match evalExpr ft memo ops e with | .err x => .err x | .ok b => .ok (!b)
  | .none => .ok true

/-- `c.depends.insert(r.rule_name())` for every `Match::Rule` operand (rules.rs:319-321) -/
def depends (ops : Ops) : List Name := ops.filterMap (fun o => match o.2 with | .rule n => some n | .field _ => none)

theorem evalMatch_congr (ft : Nat → Res) (memo memo' : Name → Option Bool) (ops : Ops)
    (h : ∀ d ∈ depends ops, memo d = memo' d) (o : Name × Match) (ho : o ∈ ops) :
    evalMatch ft memo o.2 = evalMatch ft memo' o.2 := by
  obtain ⟨k, m⟩ := o
  cases m with
  | field i => rfl
  | rule n =>
    have : n ∈ depends ops := by
      unfold depends; rw [List.mem_filterMap]; exact ⟨(k, .rule n), ho, rfl⟩
    simp [evalMatch, h n this]

theorem vals_congr (ft : Nat → Res) (memo memo' : Name → Option Bool) (ops : Ops)
    (h : ∀ d ∈ depends ops, memo d = memo' d) (p : Option Name) :
    vals ft memo ops p = vals ft memo' ops p := by
  unfold vals
  apply List.map_congr_left
  intro o ho
  exact evalMatch_congr ft memo memo' ops h o (List.mem_filter.mp ho).1

theorem lookup_mem (ops : Ops) (n : Name) (m : Match) (h : ops.lookup n = some m) : ∃ k, (k, m) ∈ ops := by
  induction ops with
  | nil => cases h
  | cons x xs ih =>
    obtain ⟨k, v⟩ := x
    simp only [List.lookup_cons] at h
    cases hb : n == k with
    | true => rw [hb] at h; simp at h; subst h; exact ⟨k, by simp⟩
    | false => rw [hb] at h; obtain ⟨k', hk'⟩ := ih h; exact ⟨k', by simp [hk']⟩

/-- the `Local` property: only the verdicts of the rule's dependencies matter -/
theorem evalExpr_local (ft : Nat → Res) (memo memo' : Name → Option Bool) (ops : Ops)
    (h : ∀ d ∈ depends ops, memo d = memo' d) (e : Expr) :
    evalExpr ft memo ops e = evalExpr ft memo' ops e := by
  induction e with
  | var n =>
    simp only [evalExpr]
    cases hl : ops.lookup n with
    | none => rfl
    | some m =>
      obtain ⟨k, hk⟩ := lookup_mem ops n m hl
      exact evalMatch_congr ft memo memo' ops h (k, m) hk
  | bin l o r ihl ihr => cases o <;> simp only [evalExpr, ihl, ihr]
  | neg e ih => simp only [evalExpr, ih]
  | none => rfl
  | _ => simp only [evalExpr, vals_congr ft memo memo' ops h]
end Local
