/-! scratch prototype: Templates::replace (template.rs:91-103).
    (1) today's sequential `String::replace` per template is order dependent (witness);
    (2) the planned single-pass, longest-placeholder replace is order independent and never rescans
        inserted text. -/
namespace Tpl

abbrev Str := List Char
abbrev Tpls := List (Str × Str)     -- name ↦ text, list order = hash-map iteration order

def ph (name : Str) : Str := '{' :: '{' :: (name ++ ['}', '}'])

/-! ### today's code: `new = new.replace("{{name}}", tpl)` for each template in map order -/
/-- Rust `str::replace` for a non-empty pattern: leftmost, non-overlapping -/
def replaceAll (pat to : Str) : Nat → Str → Str
  | 0, s => s
  | _, [] => []
  | f+1, c :: r =>
    if pat.isPrefixOf (c :: r) then to ++ replaceAll pat to f ((c :: r).drop pat.length)
    else c :: replaceAll pat to f r

def replaceSeq (tpls : Tpls) (s : Str) : Str :=
  tpls.foldl (fun acc (n, t) => replaceAll (ph n) t (acc.length + 1) acc) s

theorem replaceSeq_order_dependent :
    ∃ (t t' : Tpls) (s : Str), t.Perm t' ∧ (t.map (·.1)).Nodup ∧ replaceSeq t s ≠ replaceSeq t' s :=
  ⟨[("a".toList, "X{{b}}".toList), ("b".toList, "Y".toList)],
   [("b".toList, "Y".toList), ("a".toList, "X{{b}}".toList)],
   "{{a}}".toList, List.Perm.swap _ _ _, by decide, by decide⟩

/-! ### planned repair: one left-to-right pass; at each position the longest matching placeholder wins -/
def matchesAt (name : Str) (rest : Str) : Bool := (ph name).isPrefixOf rest

/-- scan the templates, keep the strictly longest matching name -/
def best (rest : Str) : Tpls → Option (Str × Str) → Option (Str × Str)
  | [], acc => acc
  | (n, t) :: tl, acc =>
    if matchesAt n rest then
      match acc with
      | some (bn, bt) => if bn.length < n.length then best rest tl (some (n, t)) else best rest tl (some (bn, bt))
      | none => best rest tl (some (n, t))
    else best rest tl acc

def replaceOne (tpls : Tpls) : Nat → Str → Str
  | 0, s => s
  | _, [] => []
  | f+1, c :: r =>
    match best (c :: r) tpls none with
    | some (n, t) => t ++ replaceOne tpls f ((c :: r).drop (n.length + 4))
    | none => c :: replaceOne tpls f r

def replace (tpls : Tpls) (s : Str) : Str := replaceOne tpls (s.length + 1) s

/-- what `best` returns, independent of list order -/
def IsBest (rest : Str) (tpls : Tpls) (r : Str × Str) : Prop :=
  r ∈ tpls ∧ matchesAt r.1 rest = true ∧ ∀ x ∈ tpls, matchesAt x.1 rest = true → x.1.length ≤ r.1.length

theorem prefix_same_len {a b rest : Str} (ha : a.isPrefixOf rest = true) (hb : b.isPrefixOf rest = true)
    (hl : a.length = b.length) : a = b := by
  induction rest generalizing a b with
  | nil => cases a <;> cases b <;> simp_all [List.isPrefixOf]
  | cons c rest ih =>
    cases a with
    | nil => cases b with
      | nil => rfl
      | cons _ _ => simp at hl
    | cons x a =>
      cases b with
      | nil => simp at hl
      | cons y b =>
        simp only [List.isPrefixOf, Bool.and_eq_true, beq_iff_eq] at ha hb
        obtain ⟨rfl, ha⟩ := ha
        obtain ⟨rfl, hb⟩ := hb
        simp at hl
        rw [ih ha hb hl]

theorem ph_inj_len {n m : Str} (h : ph n = ph m) : n = m := by
  simp [ph] at h; exact h

/-- two matching names of the same length are the same name -/
theorem match_same_len {n m rest : Str} (hn : matchesAt n rest = true) (hm : matchesAt m rest = true)
    (hl : n.length = m.length) : n = m :=
  ph_inj_len (prefix_same_len hn hm (by simp [ph, hl]))

theorem best_spec (rest : Str) : ∀ (tl : Tpls) (acc : Option (Str × Str)) (all : Tpls),
    (∀ x ∈ tl, x ∈ all) →
    (∀ a, acc = some a → a ∈ all ∧ matchesAt a.1 rest = true) →
    (match best rest tl acc with
     | none => acc = none ∧ ∀ x ∈ tl, matchesAt x.1 rest = false
     | some r => r ∈ all ∧ matchesAt r.1 rest = true ∧
        (∀ x ∈ tl, matchesAt x.1 rest = true → x.1.length ≤ r.1.length) ∧
        (∀ a, acc = some a → a.1.length ≤ r.1.length)) := by
  intro tl
  induction tl with
  | nil =>
    intro acc all _ hacc
    cases acc with
    | none => simp [best]
    | some a => simp [best]; exact ⟨(hacc a rfl).1, (hacc a rfl).2⟩
  | cons x tl ih =>
    intro acc all hsub hacc
    obtain ⟨n, t⟩ := x
    have hsub' : ∀ y ∈ tl, y ∈ all := fun y hy => hsub y (by simp [hy])
    have hx : (n, t) ∈ all := hsub _ (by simp)
    unfold best
    by_cases hm : matchesAt n rest = true
    · simp only [hm, if_true]
      cases acc with
      | none =>
        have := ih (some (n, t)) all hsub' (by intro a ha; cases ha; exact ⟨hx, hm⟩)
        revert this
        cases best rest tl (some (n, t)) with
        | none => intro h; exact absurd h.1 (by simp)
        | some r =>
          intro ⟨h1, h2, h3, h4⟩
          refine ⟨h1, h2, ?_, by simp⟩
          intro y hy hym
          rcases List.mem_cons.mp hy with rfl | hy'
          · exact h4 _ rfl
          · exact h3 y hy' hym
      | some b =>
        obtain ⟨bn, bt⟩ := b
        have hb := hacc (bn, bt) rfl
        by_cases hlt : bn.length < n.length
        · simp only [hlt, if_true]
          have := ih (some (n, t)) all hsub' (by intro a ha; cases ha; exact ⟨hx, hm⟩)
          revert this
          cases best rest tl (some (n, t)) with
          | none => intro h; exact absurd h.1 (by simp)
          | some r =>
            intro ⟨h1, h2, h3, h4⟩
            have h4' := h4 _ rfl
            refine ⟨h1, h2, ?_, ?_⟩
            · intro y hy hym
              rcases List.mem_cons.mp hy with rfl | hy'
              · exact h4'
              · exact h3 y hy' hym
            · intro a ha; cases ha; simp at h4' ⊢; omega
        · simp only [hlt, if_false]
          have := ih (some (bn, bt)) all hsub' (by intro a ha; cases ha; exact hb)
          revert this
          cases best rest tl (some (bn, bt)) with
          | none => intro h; exact absurd h.1 (by simp)
          | some r =>
            intro ⟨h1, h2, h3, h4⟩
            have h4' := h4 _ rfl
            refine ⟨h1, h2, ?_, ?_⟩
            · intro y hy hym
              rcases List.mem_cons.mp hy with rfl | hy'
              · simp at h4' ⊢; omega
              · exact h3 y hy' hym
            · intro a ha; cases ha; exact h4'
    · have hm' : matchesAt n rest = false := by simpa using hm
      simp only [hm', Bool.false_eq_true, if_false]
      have := ih acc all hsub' hacc
      revert this
      cases best rest tl acc with
      | none =>
        intro ⟨h1, h2⟩
        refine ⟨h1, ?_⟩
        intro y hy; rcases List.mem_cons.mp hy with rfl | hy'
        · exact hm'
        · exact h2 y hy'
      | some r =>
        intro ⟨h1, h2, h3, h4⟩
        refine ⟨h1, h2, ?_, h4⟩
        intro y hy hym
        rcases List.mem_cons.mp hy with rfl | hy'
        · rw [hm'] at hym; cases hym
        · exact h3 y hy' hym

theorem best_isBest (rest : Str) (tpls : Tpls) :
    match best rest tpls none with
    | none => ∀ x ∈ tpls, matchesAt x.1 rest = false
    | some r => IsBest rest tpls r := by
  have := best_spec rest tpls none tpls (fun _ h => h) (by intro a h; cases h)
  revert this
  cases best rest tpls none with
  | none => intro h; exact h.2
  | some r => intro ⟨h1, h2, h3, _⟩; exact ⟨h1, h2, h3⟩

theorem isBest_unique (rest : Str) (tpls : Tpls) (hnd : (tpls.map (·.1)).Nodup) (r r' : Str × Str)
    (h : IsBest rest tpls r) (h' : IsBest rest tpls r') : r = r' := by
  have hl : r.1.length = r'.1.length := Nat.le_antisymm (h'.2.2 r h.1 h.2.1) (h.2.2 r' h'.1 h'.2.1)
  have hn : r.1 = r'.1 := match_same_len h.2.1 h'.2.1 hl
  -- distinct names ⇒ same entry
  have h1 := h.1; have h2 := h'.1
  clear h h' hl
  induction tpls with
  | nil => cases h1
  | cons x xs ih =>
    simp only [List.map_cons, List.nodup_cons] at hnd
    rcases List.mem_cons.mp h1 with rfl | h1'
    · rcases List.mem_cons.mp h2 with rfl | h2'
      · rfl
      · exact absurd (List.mem_map.mpr ⟨r', h2', hn.symm⟩) hnd.1
    · rcases List.mem_cons.mp h2 with rfl | h2'
      · exact absurd (List.mem_map.mpr ⟨r, h1', hn⟩) hnd.1
      · exact ih hnd.2 h1' h2'

/-- the choice at a position does not depend on the iteration order -/
theorem best_perm (rest : Str) (tpls tpls' : Tpls) (hp : tpls.Perm tpls') (hnd : (tpls.map (·.1)).Nodup) :
    best rest tpls none = best rest tpls' none := by
  have b1 := best_isBest rest tpls
  have b2 := best_isBest rest tpls'
  revert b1 b2
  cases h1 : best rest tpls none with
  | none =>
    cases h2 : best rest tpls' none with
    | none => intros; rfl
    | some r' =>
      intro b1 b2
      have := b1 r' (hp.mem_iff.mpr b2.1)
      rw [b2.2.1] at this; cases this
  | some r =>
    cases h2 : best rest tpls' none with
    | none =>
      intro b1 b2
      have := b2 r (hp.mem_iff.mp b1.1)
      rw [b1.2.1] at this; cases this
    | some r' =>
      intro b1 b2
      have b2' : IsBest rest tpls r' :=
        ⟨hp.mem_iff.mpr b2.1, b2.2.1, fun x hx hm => b2.2.2 x (hp.mem_iff.mp hx) hm⟩
      rw [isBest_unique rest tpls hnd r r' b1 b2']

/-- C17 (order independence) for the single-pass replace -/
theorem replace_perm (tpls tpls' : Tpls) (hp : tpls.Perm tpls') (hnd : (tpls.map (·.1)).Nodup) (s : Str) :
    replace tpls s = replace tpls' s := by
  unfold replace
  generalize s.length + 1 = f
  induction f generalizing s with
  | zero => rfl
  | succ f ih =>
    cases s with
    | nil => rfl
    | cons c r =>
      simp only [replaceOne]
      rw [best_perm (c :: r) tpls tpls' hp hnd]
      cases best (c :: r) tpls' none with
      | none => simp only; rw [ih]
      | some x => obtain ⟨n, t⟩ := x; simp only; rw [ih]

-- inserted text is not rescanned; brace runs; unknown placeholders untouched
example : replace [("a".toList, "X{{b}}".toList), ("b".toList, "Y".toList)] "{{a}}{{b}}".toList = "X{{b}}Y".toList := by decide
example : replace [("b".toList, "Y".toList), ("a".toList, "X{{b}}".toList)] "{{a}}{{b}}".toList = "X{{b}}Y".toList := by decide
example : replace [("a".toList, "T".toList)] "{{{a}}}{{zz}}".toList = "{T}{{zz}}".toList := by decide
end Tpl
