/-! scratch prototypes: C05 admission, C07 aggregation, C12 candidate cache -/
namespace Admit
abbrev Src := List Char
/-- `match-on.events` as an association list with unique keys -/
abbrev MatchOn := List (Src × List Int)

def pos (ids : List Int) : List Int := ids.filter (fun i => 0 ≤ i)
def negd (ids : List Int) : List Int := (ids.filter (fun i => i < 0)).map (fun i => -i)

/-- the statement of C05 -/
def spec (mo : MatchOn) (src : Src) (id : Int) : Bool :=
  if mo.isEmpty then true
  else match mo.lookup src with
    | none => false
    | some ids => !(negd ids).contains id && ((pos ids).isEmpty || (pos ids).contains id)

/-! today's code: build_include_events / build_exclude_events drop empty sets; can_match_on -/
def includeCur (mo : MatchOn) : MatchOn := mo.filterMap (fun (s, ids) => if (pos ids).isEmpty then none else some (s, pos ids))
def excludeCur (mo : MatchOn) : MatchOn := mo.filterMap (fun (s, ids) => if (negd ids).isEmpty then none else some (s, negd ids))

def canMatchCur (mo : MatchOn) (src : Src) (id : Int) : Bool :=
  let inc := includeCur mo
  let exc := excludeCur mo
  if inc.isEmpty && exc.isEmpty then true
  else
    let oe := exc.lookup src
    if (match oe with | some ex => ex.contains id | none => false) then false
    else
      let oi := inc.lookup src
      if oi.isNone && oe.isSome then true
      else match oi with
        | some i => i.contains id
        | none => false

/-- three witnesses that today's code violates the statement (also replayed on the real crate) -/
theorem cur_violates_1 : canMatchCur [("a".toList, []), ("b".toList, [1])] "a".toList 5 ≠ spec [("a".toList, []), ("b".toList, [1])] "a".toList 5 := by decide
theorem cur_violates_2 : canMatchCur [("a".toList, [])] "b".toList 1 ≠ spec [("a".toList, [])] "b".toList 1 := by decide
theorem cur_violates_3 : canMatchCur [("a".toList, [-1]), ("b".toList, [])] "b".toList 1 ≠ spec [("a".toList, [-1]), ("b".toList, [])] "b".toList 1 := by decide

/-! planned repair: keep every listed source (empty sets included) -/
def includeFix (mo : MatchOn) : MatchOn := mo.map (fun (s, ids) => (s, pos ids))
def excludeFix (mo : MatchOn) : MatchOn := mo.map (fun (s, ids) => (s, negd ids))

def canMatchFix (mo : MatchOn) (src : Src) (id : Int) : Bool :=
  if (includeFix mo).isEmpty then true
  else if (match (excludeFix mo).lookup src with | some ex => ex.contains id | none => false) then false
  else match (includeFix mo).lookup src with
    | some i => i.isEmpty || i.contains id
    | none => false

theorem lookup_map (mo : MatchOn) (f : List Int → List Int) (src : Src) :
    (mo.map (fun (s, ids) => (s, f ids))).lookup src = (mo.lookup src).map f := by
  induction mo with
  | nil => rfl
  | cons x xs ih =>
    obtain ⟨s, ids⟩ := x
    simp only [List.map_cons, List.lookup_cons]
    cases h : src == s <;> simp [ih]

theorem fix_correct (mo : MatchOn) (src : Src) (id : Int) : canMatchFix mo src id = spec mo src id := by
  unfold canMatchFix spec includeFix excludeFix
  rw [lookup_map mo pos, lookup_map mo negd]
  cases mo with
  | nil => rfl
  | cons x xs =>
    simp only [List.map_cons, List.isEmpty_cons, Bool.false_eq_true, if_false]
    cases h : List.lookup src (x :: xs) with
    | none => simp
    | some ids => simp only [Option.map_some]; cases (negd ids).contains id <;> simp
end Admit

namespace Agg
inductive Ty | det | filt | dep deriving DecidableEq, Repr
structure CR where
  name : Nat
  ty : Ty
  tags : List Nat
  attack : List Nat
  actions : List Nat
  sev : Nat
structure SR where
  rules : List Nat := []
  tags : List Nat := []
  attack : List Nat := []
  actions : List Nat := []
  filtered : Bool := false
  severity : Nat := 0

/-- ScanResult::update (engine.rs:52-79); sets as lists, compared by membership -/
def update (sr : SR) (r : CR) : SR :=
  let sr1 : SR := if r.ty ≠ .filt then
      { sr with rules := r.name :: sr.rules, tags := r.tags ++ sr.tags, attack := r.attack ++ sr.attack,
                severity := min (sr.severity + r.sev) 10 }
    else sr
  { sr1 with actions := r.actions ++ sr1.actions, filtered := sr1.filtered || (r.ty == .filt) }

/-- matched candidates are detection or filter rules -/
def agg (ms : List CR) : Option SR := ms.foldl (fun o r => some (update (o.getD {}) r)) none

def dets (ms : List CR) : List CR := ms.filter (fun r => r.ty ≠ .filt)

theorem foldl_some (ms : List CR) (sr : SR) :
    ms.foldl (fun o r => some (update (o.getD {}) r)) (some sr) = some (ms.foldl update sr) := by
  induction ms generalizing sr with
  | nil => rfl
  | cons r ms ih => simp [List.foldl_cons, ih]

theorem agg_none_iff (ms : List CR) : agg ms = none ↔ ms = [] := by
  cases ms with
  | nil => simp [agg]
  | cons r ms => simp [agg, foldl_some]

theorem min_assoc10 (a b : Nat) : min (min a 10 + b) 10 = min (a + b) 10 := by omega

theorem sev_fold (ms : List CR) (sr : SR) :
    (ms.foldl update sr).severity = min (sr.severity + ((dets ms).map (·.sev)).sum) 10 ∨ sr.severity > 10 := by
  induction ms generalizing sr with
  | nil => simp [dets]; omega
  | cons r ms ih =>
    simp only [List.foldl_cons]
    by_cases hf : r.ty = .filt
    · have : (update sr r).severity = sr.severity := by simp [update, hf]
      rcases ih (update sr r) with h | h
      · left; rw [h, this]; simp [dets, hf]
      · right; omega
    · have : (update sr r).severity = min (sr.severity + r.sev) 10 := by simp [update, hf]
      rcases ih (update sr r) with h | h
      · left; rw [h, this]
        have : dets (r :: ms) = r :: dets ms := by simp [dets, hf]
        rw [this]; simp only [List.map_cons, List.sum_cons]
        omega
      · rw [this] at h; omega

/-- C07 severity: the capped sum of the matching detections' severities (each already capped at compile
    time; here any values) -/
theorem severity_spec (ms : List CR) (sr : SR) (h : agg ms = some sr) :
    sr.severity = min (((dets ms).map (·.sev)).sum) 10 := by
  cases ms with
  | nil => simp [agg] at h
  | cons r ms =>
    simp only [agg, List.foldl_cons, Option.getD_none, foldl_some, Option.some.injEq] at h
    subst h
    have := sev_fold (r :: ms) {}
    simp only [List.foldl_cons] at this
    rcases this with h | h
    · simpa using h
    · simp at h

theorem mem_foldl_append {α β : Type} (f : β → α → β) (proj : β → List Nat) (g : α → List Nat)
    (h : ∀ b a, proj (f b a) = g a ++ proj b) (l : List α) (b : β) (x : Nat) :
    x ∈ proj (l.foldl f b) ↔ x ∈ proj b ∨ ∃ a ∈ l, x ∈ g a := by
  induction l generalizing b with
  | nil => simp
  | cons a l ih =>
    simp only [List.foldl_cons]
    rw [ih (f b a), h b a, List.mem_append]
    constructor
    · rintro ((h1 | h1) | ⟨a', ha', hx⟩)
      · exact Or.inr ⟨a, by simp, h1⟩
      · exact Or.inl h1
      · exact Or.inr ⟨a', by simp [ha'], hx⟩
    · rintro (h1 | ⟨a', ha', hx⟩)
      · exact Or.inl (Or.inr h1)
      · rcases List.mem_cons.mp ha' with rfl | ha''
        · exact Or.inl (Or.inl hx)
        · exact Or.inr ⟨a', ha'', hx⟩

/-- C07 unions: names/tags (attack alike) over matching detections only, actions over all matches -/
theorem rules_spec (ms : List CR) (sr : SR) (x : Nat) :
    x ∈ (ms.foldl update sr).rules ↔ x ∈ sr.rules ∨ ∃ r ∈ ms, r.ty ≠ .filt ∧ r.name = x := by
  rw [mem_foldl_append update (·.rules) (fun r => if r.ty ≠ .filt then [r.name] else [])
    (by intro b a; by_cases h : a.ty = .filt <;> simp [update, h]) ms sr x]
  constructor
  · rintro (h | ⟨r, hr, hx⟩)
    · exact Or.inl h
    · by_cases h : r.ty = .filt
      · simp [h] at hx
      · simp [h] at hx; exact Or.inr ⟨r, hr, h, hx.symm⟩
  · rintro (h | ⟨r, hr, hne, rfl⟩)
    · exact Or.inl h
    · exact Or.inr ⟨r, hr, by simp [hne]⟩

theorem tags_spec (ms : List CR) (sr : SR) (x : Nat) :
    x ∈ (ms.foldl update sr).tags ↔ x ∈ sr.tags ∨ ∃ r ∈ ms, r.ty ≠ .filt ∧ x ∈ r.tags := by
  rw [mem_foldl_append update (·.tags) (fun r => if r.ty ≠ .filt then r.tags else [])
    (by intro b a; by_cases h : a.ty = .filt <;> simp [update, h]) ms sr x]
  constructor
  · rintro (h | ⟨r, hr, hx⟩)
    · exact Or.inl h
    · by_cases h : r.ty = .filt
      · simp [h] at hx
      · simp [h] at hx; exact Or.inr ⟨r, hr, h, hx⟩
  · rintro (h | ⟨r, hr, hne, hx⟩)
    · exact Or.inl h
    · exact Or.inr ⟨r, hr, by simp [hne, hx]⟩

theorem actions_spec (ms : List CR) (sr : SR) (x : Nat) :
    x ∈ (ms.foldl update sr).actions ↔ x ∈ sr.actions ∨ ∃ r ∈ ms, x ∈ r.actions :=
  mem_foldl_append update (·.actions) (·.actions)
    (by intro b a; by_cases h : a.ty = .filt <;> simp [update, h]) ms sr x

theorem filtered_spec (ms : List CR) (sr : SR) :
    (ms.foldl update sr).filtered = true ↔ sr.filtered = true ∨ ∃ r ∈ ms, r.ty = .filt := by
  induction ms generalizing sr with
  | nil => simp
  | cons r ms ih =>
    simp only [List.foldl_cons]
    rw [ih (update sr r)]
    have : (update sr r).filtered = (sr.filtered || (r.ty == .filt)) := by
      by_cases h : r.ty = .filt <;> simp [update, h]
    rw [this]
    constructor
    · rintro (h | ⟨a, ha, hf⟩)
      · simp at h; rcases h with h | h
        · exact Or.inl h
        · exact Or.inr ⟨r, by simp, h⟩
      · exact Or.inr ⟨a, by simp [ha], hf⟩
    · rintro (h | ⟨a, ha, hf⟩)
      · exact Or.inl (by simp [h])
      · rcases List.mem_cons.mp ha with rfl | ha'
        · exact Or.inl (by simp [hf])
        · exact Or.inr ⟨a, ha', hf⟩
end Agg

namespace Cache
-- C12: a lookup-or-compute cache over a pure function is unobservable
variable {K V : Type} [BEq K] [LawfulBEq K]

structure Eng (K V : Type) where
  cache : List (K × V)

def cached (f : K → V) (e : Eng K V) (k : K) : Eng K V × V :=
  match e.cache.lookup k with
  | some v => (e, v)
  | none => ({ cache := (k, f k) :: e.cache }, f k)

def Inv (f : K → V) (e : Eng K V) : Prop := ∀ k v, e.cache.lookup k = some v → v = f k

theorem cached_spec (f : K → V) (e : Eng K V) (k : K) (h : Inv f e) :
    (cached f e k).2 = f k ∧ Inv f (cached f e k).1 := by
  unfold cached
  cases hl : e.cache.lookup k with
  | some v => exact ⟨h k v hl, h⟩
  | none =>
    refine ⟨rfl, ?_⟩
    intro k' v' hk'
    simp only [List.lookup_cons] at hk'
    cases hb : k' == k with
    | true => rw [hb] at hk'; simp at hk'; rw [← hk', eq_of_beq hb]
    | false => rw [hb] at hk'; exact h k' v' hk'

/-- scanning a history: each answer equals the fresh-engine answer -/
def runSeq (f : K → V) : Eng K V → List K → List V
  | _, [] => []
  | e, k :: ks => (cached f e k).2 :: runSeq f (cached f e k).1 ks

theorem history_independent (f : K → V) (e : Eng K V) (h : Inv f e) (ks : List K) :
    runSeq f e ks = ks.map f := by
  induction ks generalizing e with
  | nil => rfl
  | cons k ks ih =>
    have := cached_spec f e k h
    simp only [runSeq, List.map_cons, this.1, ih _ this.2]
end Cache
