/-! scratch prototype for C08: derive(FieldGetter) arm construction (derive/src/lib.rs:213-256) and the
    generated get_from_iter + event.rs impls, against "a path resolves to the field it names" -/
namespace Getter

abbrev Str := List Char
inductive FV | str (s : Str) | num (n : Int) | bool (b : Bool) | some | none  deriving DecidableEq, Repr

inductive Meta | skip | rename (s : Str) | other  deriving DecidableEq, Repr
/-- one `#[getter(...)]` or `#[serde(...)]` attribute (others are invisible to the macro) -/
structure Attribute where
  isGetter : Bool
  metas : List Meta
  deriving DecidableEq, Repr

structure Field where
  name : Str
  attrs : List Attribute
  deriving DecidableEq, Repr

def renameOf (metas : List Meta) : Option Str :=
  -- MetaParser collects into a HashMap keyed by ident: the last `rename` wins
  metas.foldl (fun acc m => match m with | .rename s => some s | _ => acc) none

/-- today's macro: only the FIRST attribute that is `getter`, or `serde` when use_serde_rename -/
def armCur (useSerde : Bool) (f : Field) : Option (List Str) :=
  match f.attrs.find? (fun a => a.isGetter || useSerde) with
  | none => some [f.name]
  | some a =>
    if a.isGetter && a.metas.contains .skip then none
    else match renameOf a.metas with
      | some n => some [f.name, n]
      | none => some [f.name]

/-- planned repair: look at every relevant attribute -/
def armFix (useSerde : Bool) (f : Field) : Option (List Str) :=
  let rel := f.attrs.filter (fun a => a.isGetter || useSerde)
  if rel.any (fun a => a.isGetter && a.metas.contains .skip) then none
  else some (f.name :: rel.filterMap (fun a => renameOf a.metas))

/-- the statement: own name or any declared alias; skipped names resolve to nothing -/
def armSpec (useSerde : Bool) (f : Field) : Option (List Str) :=
  if f.attrs.any (fun a => a.isGetter && a.metas.contains .skip) then none
  else some (f.name :: (f.attrs.filter (fun a => a.isGetter || useSerde)).filterMap (fun a => renameOf a.metas))

inductive Val
  | scalar (fv : FV)
  | optNone
  | optSome (v : Val)
  | map (kvs : List (Str × FV))
  | struct (useSerde : Bool) (fields : List (Field × Val))

-- generated `get_from_iter` (first matching arm wins) + impls for scalars, Option<T>, HashMap<String,T>
mutual
def get (arm : Bool → Field → Option (List Str)) : Val → List Str → Option FV
  | .scalar fv, [] => some fv
  | .scalar _, _ :: _ => none
  | .optNone, _ => some .none
  | .optSome v, p => get arm v p
  | .map _, [] => some .some
  | .map kvs, [k] => kvs.lookup k
  | .map _, _ :: _ :: _ => none
  | .struct _ _, [] => some .some
  | .struct us fs, seg :: rest => getField arm us fs seg rest
def getField (arm : Bool → Field → Option (List Str)) : Bool → List (Field × Val) → Str → List Str → Option FV
  | _, [], _, _ => none
  | us, (f, v) :: fs, seg, rest =>
    match arm us f with
    | some names => if names.contains seg then get arm v rest else getField arm us fs seg rest
    | none => getField arm us fs seg rest
end

theorem armFix_eq_spec (us : Bool) (f : Field) : armFix us f = armSpec us f := by
  unfold armFix armSpec
  have : (f.attrs.filter (fun a => a.isGetter || us)).any (fun a => a.isGetter && a.metas.contains .skip)
       = f.attrs.any (fun a => a.isGetter && a.metas.contains .skip) := by
    induction f.attrs with
    | nil => rfl
    | cons a as ih =>
      simp only [List.filter_cons, List.any_cons]
      cases hg : a.isGetter <;> cases us <;> simp [hg, ih]
  simp only [this]

/-- C08 for the repaired macro: every struct definition, value and path -/
theorem get_congr (a1 a2 : Bool → Field → Option (List Str)) (h : ∀ us f, a1 us f = a2 us f) :
    (∀ v p, get a1 v p = get a2 v p) := by
  have : a1 = a2 := by funext us f; exact h us f
  subst this; intros; rfl

theorem fixed_resolves (v : Val) (p : List Str) : get armFix v p = get armSpec v p :=
  get_congr _ _ armFix_eq_spec v p

/-- today's macro agrees with the statement when no field carries two relevant attributes -/
theorem armCur_eq_spec_single (us : Bool) (f : Field)
    (h : (f.attrs.filter (fun a => a.isGetter || us)).length ≤ 1) :
    armCur us f = armSpec us f := by
  unfold armCur armSpec
  have hfilt : f.attrs.find? (fun a => a.isGetter || us) = (f.attrs.filter (fun a => a.isGetter || us)).head? := by
    rw [List.head?_filter]
  rw [hfilt]
  have hany : f.attrs.any (fun a => a.isGetter && a.metas.contains .skip)
      = (f.attrs.filter (fun a => a.isGetter || us)).any (fun a => a.isGetter && a.metas.contains .skip) := by
    clear h hfilt
    induction f.attrs with
    | nil => rfl
    | cons a as ih =>
      simp only [List.filter_cons, List.any_cons]
      cases hg : a.isGetter <;> cases us <;> simp [hg, ih]
  rw [hany]
  generalize f.attrs.filter (fun a => a.isGetter || us) = rel at h
  match rel, h with
  | [], _ => simp
  | [a], _ =>
    simp only [List.head?_cons, List.any_cons, List.any_nil, Bool.or_false, List.filterMap_cons, List.filterMap_nil]
    cases hsk : (a.isGetter && a.metas.contains .skip) with
    | true => simp
    | false => cases renameOf a.metas <;> simp

/-- witness: `#[serde(rename = "x")] #[getter(skip)] f` is not skipped today (replayed on the real macro) -/
theorem cur_violates :
    let f : Field := ⟨"f".toList, [⟨false, [.rename "x".toList]⟩, ⟨true, [.skip]⟩]⟩
    let v := Val.struct true [(f, .scalar (.num 1))]
    get armCur v ["f".toList] ≠ get armSpec v ["f".toList] := by decide

-- the statement's other clauses, as evaluations of the spec getter
example : get armSpec (.struct false [(⟨"o".toList, []⟩, .optNone)]) ["o".toList, "zzz".toList] = some .none := by decide
example : get armSpec (.struct false [(⟨"m".toList, []⟩, .map [("k.j".toList, .num 9)])]) ["m".toList, "k.j".toList] = some (.num 9) := by decide
example : get armSpec (.struct false [(⟨"a".toList, []⟩, .scalar (.num 1))]) ["a".toList, "b".toList] = none := by decide
example : get armSpec (.struct false [(⟨"a".toList, []⟩, .struct false [])]) ["a".toList] = some .some := by decide
end Getter
