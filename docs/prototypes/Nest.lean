import Proto.Pratt
/-! scratch prototype for C02(1): precedence correctness lifted through parenthesised nesting.
    CST = what pest hands to `parse_expr`: an atom followed by (operator, atom)*, an atom being an optional
    negation and a primary, a primary being a leaf (variable / quantifier group) or a parenthesised CST.
    `parse_expr` maps primaries recursively and runs the Pratt parser at each level. -/
namespace Nest
open Pratt

-- purely mutual (no nested `List`), so structural recursion and induction are available
mutual
inductive CExpr | mk (head : CAtom) (tail : CTail)
inductive CTail | nil | cons (o : BOp) (a : CAtom) (t : CTail)
inductive CAtom | mk (neg : Bool) (p : CPrim)
inductive CPrim | leaf (id : Nat) | paren (e : CExpr)
end

/-- gene's `Expr` restricted to what matters here -/
inductive G | leaf (id : Nat) | neg (e : G) | bin (l : G) (o : BOp) (r : G)

def evalG (v : Nat → Bool) : G → Bool
  | .leaf i => v i
  | .neg e => !evalG v e
  | .bin l .and r => evalG v l && evalG v r
  | .bin l .or r => evalG v l || evalG v r

/-- `map_primary/map_prefix/map_infix`: Pratt output over already-mapped primaries → gene Expr -/
def embed : E G → G
  | .prim g => g
  | .neg e => .neg (embed e)
  | .bin l o r => .bin (embed l) o (embed r)

theorem evalG_embed (v : Nat → Bool) (e : E G) : evalG v (embed e) = ev (evalG v) e := by
  induction e with
  | prim g => rfl
  | neg e ih => simp [embed, evalG, ev, ih]
  | bin l o r ihl ihr => cases o <;> simp [embed, evalG, ev, ihl, ihr]

/-- total wrapper around the fuel-based Pratt run (the `none` branch is unreachable by `pratt_correct`) -/
def prattRun (a : Atom G) (rest : List (Item G)) : E G :=
  match expr (2 * rest.length + 20) 0 (atomToks a ++ tailToks rest) with
  | some (e, _) => e
  | none => .prim a.p

theorem prattRun_correct (v : Nat → Bool) (a : Atom G) (rest : List (Item G)) :
    ev (evalG v) (prattRun a rest) = dnf (evalG v) (atomVal (evalG v) a) rest := by
  obtain ⟨e, he, hv⟩ := pratt_correct a rest
  simp only [prattRun, he]
  exact hv (evalG v)

-- parse_expr: map primaries recursively, then Pratt at this level
mutual
def astE : CExpr → G
  | .mk h t => embed (prattRun (astA h) (astT t))
def astT : CTail → List (Item G)
  | .nil => []
  | .cons o a t => (o, astA a) :: astT t
def astA : CAtom → Atom G
  | .mk n p => ⟨n, astP p⟩
def astP : CPrim → G
  | .leaf i => .leaf i
  | .paren e => astE e
end

-- the meaning the property gives: at every level a disjunction of conjunctions of possibly negated
-- primaries, a parenthesised primary meaning its content
mutual
def denE (v : Nat → Bool) : CExpr → Bool
  | .mk h t => denT v (denA v h) t
def denT (v : Nat → Bool) : Bool → CTail → Bool
  | acc, .nil => acc
  | acc, .cons .and a t => denT v (acc && denA v a) t
  | acc, .cons .or a t => acc || denT v (denA v a) t
def denA (v : Nat → Bool) : CAtom → Bool
  | .mk n p => if n then !denP v p else denP v p
def denP (v : Nat → Bool) : CPrim → Bool
  | .leaf i => v i
  | .paren e => denE v e
end

mutual
theorem astE_correct (v : Nat → Bool) : ∀ c : CExpr, evalG v (astE c) = denE v c
  | .mk h t => by
    simp only [astE, denE, evalG_embed, prattRun_correct]
    rw [astA_correct v h]
    exact astT_correct v t _
theorem astT_correct (v : Nat → Bool) : ∀ (t : CTail) (acc : Bool), dnf (evalG v) acc (astT t) = denT v acc t
  | .nil, acc => by simp [astT, dnf, denT]
  | .cons .and a t, acc => by
    simp only [astT, dnf, denT]
    rw [astA_correct v a]; exact astT_correct v t _
  | .cons .or a t, acc => by
    simp only [astT, dnf, denT]
    rw [astA_correct v a, astT_correct v t _]
theorem astA_correct (v : Nat → Bool) : ∀ a : CAtom, atomVal (evalG v) (astA a) = denA v a
  | .mk n p => by
    have := astP_correct v p
    cases n <;> simp [astA, atomVal, denA, this]
theorem astP_correct (v : Nat → Bool) : ∀ p : CPrim, evalG v (astP p) = denP v p
  | .leaf i => by simp [astP, evalG, denP]
  | .paren e => by simp only [astP, denP]; exact astE_correct v e
end

-- `not ($1 or $2) and $3`  ≠  `not $1 or $2 and $3`
example : denE (fun i => i == 2) (.mk (.mk true (.paren (.mk (.mk false (.leaf 1)) (.cons .or (.mk false (.leaf 2)) .nil))))
    (.cons .and (.mk false (.leaf 3)) .nil)) = false := by decide
end Nest
