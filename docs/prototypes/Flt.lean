/-! scratch prototype: f64 denotation as scaled integers and exact int/float comparison -/
namespace Flt

/-- 2^1074: every finite double is k / S for an integer k -/
def S : Int := 2 ^ 1074

inductive FVal | nan | ninf | pinf | fin (k : Int)
  deriving DecidableEq, Repr

structure F64 where bits : Nat

def F64.sign (x : F64) : Bool := x.bits / 2^63 % 2 == 1
def F64.expo (x : F64) : Nat := x.bits / 2^52 % 2^11
def F64.frac (x : F64) : Nat := x.bits % 2^52

def F64.val (x : F64) : FVal :=
  if x.expo = 2047 then (if x.frac = 0 then (if x.sign then .ninf else .pinf) else .nan)
  else
    let m : Nat := if x.expo = 0 then x.frac else (2^52 + x.frac) * 2^(x.expo - 1)
    .fin (if x.sign then -(m : Int) else m)

/-- mathematical comparison of values (None for NaN) -/
def FVal.cmp : FVal → FVal → Option Ordering
  | .nan, _ | _, .nan => none
  | .ninf, .ninf => some .eq | .ninf, _ => some .lt | _, .ninf => some .gt
  | .pinf, .pinf => some .eq | .pinf, _ => some .gt | _, .pinf => some .lt
  | .fin a, .fin b => some (compare a b)

#eval (F64.val ⟨0x3FF8000000000000⟩ == .fin (3 * 2^1073))   -- 1.5
#eval (F64.val ⟨0x0000000000000001⟩ == .fin 1)               -- min subnormal
#eval FVal.cmp (F64.val ⟨0x4340000000000000⟩) (.fin ((2^53 + 1) * S))  -- 2^53 vs 2^53+1 : lt

/-- the algorithm planned for `impl PartialOrd for Number` (int vs float), on the denotation:
    bounds checks, then compare with trunc(f), tie broken by comparing trunc(f) with f -/
def cmpIntFloat (i : Int) : FVal → Option Ordering
  | .nan => none
  | .pinf => some .lt
  | .ninf => some .gt
  | .fin k =>
    let q := k.tdiv S            -- `f.trunc() as i128`
    if i < q then some .lt else if q < i then some .gt else some (compare (q * S) k)   -- `t.partial_cmp(&f)`

theorem S_pos : 0 < S := by unfold S; exact Int.pow_pos (by decide)

theorem cmp_scaled (i k s : Int) (hs : 0 < s) :
    compare (i * s) k =
      (if i < k.tdiv s then .lt else if k.tdiv s < i then .gt else compare (k.tdiv s * s) k) := by
  have hk : k.tdiv s * s + k.tmod s = k := by
    have := Int.tmod_add_tdiv_mul k s; omega
  have hr1 : k.tmod s < s := Int.tmod_lt_of_pos k hs
  have hr2 : -s < k.tmod s := by
    have := Int.tmod_lt_of_pos (-k) hs
    rw [Int.neg_tmod] at this; omega
  generalize k.tdiv s = q at *
  generalize k.tmod s = r at *
  by_cases h1 : i < q
  · simp only [h1, if_true]
    have : (i + 1) * s ≤ q * s := Int.mul_le_mul_of_nonneg_right (by omega) (by omega)
    rw [Int.add_mul] at this
    rw [Int.compare_eq_lt]; omega
  · simp only [h1, if_false]
    by_cases h2 : q < i
    · simp only [h2, if_true]
      have : (q + 1) * s ≤ i * s := Int.mul_le_mul_of_nonneg_right (by omega) (by omega)
      rw [Int.add_mul] at this
      rw [Int.compare_eq_gt]; omega
    · simp only [h2, if_false]
      have : i = q := by omega
      subst this; rfl

/-- exactness: the algorithm equals mathematical comparison of the integer i with the float value -/
theorem cmpIntFloat_exact (i : Int) (v : FVal) : cmpIntFloat i v = FVal.cmp (.fin (i * S)) v := by
  cases v with
  | nan => rfl
  | ninf => rfl
  | pinf => rfl
  | fin k =>
    simp only [cmpIntFloat, FVal.cmp]
    rw [cmp_scaled i k S S_pos]
    split
    · rfl
    · split <;> rfl

/-- trichotomy for non-NaN values -/
theorem trichotomy (a b : FVal) (ha : a ≠ .nan) (hb : b ≠ .nan) :
    ∃ o, FVal.cmp a b = some o := by
  cases a <;> cases b <;> simp_all [FVal.cmp]
end Flt
