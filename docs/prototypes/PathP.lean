/-! scratch prototype: field_path (match.pest:1-4) + XPath::parse (end-anchored) — language theorem -/
namespace PathP

def isSeg (c : Char) : Bool := c.isAlphanum || c == '_' || c == '-'
def isSegWs (c : Char) : Bool := isSeg c || c == ' ' || c == '.'

inductive Seg | plain (t : List Char) | quoted (t : List Char)
  deriving DecidableEq, Repr

def Seg.text : Seg → List Char | .plain t => t | .quoted t => t
def Seg.wf : Seg → Prop
  | .plain t => t ≠ [] ∧ ∀ c ∈ t, isSeg c = true
  | .quoted t => t ≠ [] ∧ ∀ c ∈ t, isSegWs c = true
def Seg.render : Seg → List Char
  | .plain t => '.' :: t
  | .quoted t => '.' :: '"' :: (t ++ ['"'])

def spanP (p : Char → Bool) : List Char → List Char × List Char
  | [] => ([], [])
  | c :: r => if p c then ((spanP p r).1.cons c, (spanP p r).2) else ([], c :: r)

/-- one `sep ~ ("\"" ~ segment_with_ws ~ "\"" | segment)` -/
def piece : List Char → Option (Seg × List Char)
  | '.' :: '"' :: r =>
      match spanP isSegWs r with
      | (a :: t, '"' :: r') => some (.quoted (a :: t), r')
      | _ => none          -- second alternative `segment` cannot start with a quote
  | '.' :: r =>
      match spanP isSeg r with
      | (a :: t, r') => some (.plain (a :: t), r')
      | _ => none
  | _ => none

/-- `field_path*` flattened, greedy -/
def many : Nat → List Char → List Seg × List Char
  | 0, s => ([], s)
  | f+1, s =>
    match piece s with
    | none => ([], s)
    | some (g, r) => let (gs, r') := many f r; (g :: gs, r')

def parse (s : List Char) : Option (List Seg) :=
  match many (s.length + 1) s with
  | (g :: gs, []) => some (g :: gs)
  | _ => none

/-! span facts -/
theorem span_spec (p : Char → Bool) (l : List Char) :
    l = (spanP p l).1 ++ (spanP p l).2 ∧ (∀ c ∈ (spanP p l).1, p c = true) ∧
      ((spanP p l).2 = [] ∨ ∃ c r, (spanP p l).2 = c :: r ∧ p c = false) := by
  induction l with
  | nil => simp [spanP]
  | cons a l ih =>
    unfold spanP
    by_cases ha : p a = true
    · simp only [ha, if_true]
      refine ⟨by simp [← ih.1], ?_, ih.2.2⟩
      intro c hc; rcases List.mem_cons.mp hc with rfl | h
      · exact ha
      · exact ih.2.1 c h
    · simp only [ha]
      refine ⟨by simp, by simp, Or.inr ⟨a, l, rfl, by simpa using ha⟩⟩

theorem span_append (p : Char → Bool) (t r : List Char) (ht : ∀ c ∈ t, p c = true)
    (hr : r = [] ∨ ∃ c r', r = c :: r' ∧ p c = false) : spanP p (t ++ r) = (t, r) := by
  induction t with
  | nil =>
    rcases hr with rfl | ⟨c, r', rfl, hc⟩
    · rfl
    · simp [spanP, hc]
  | cons a t ih =>
    have ha : p a = true := ht a (by simp)
    have := ih (fun c hc => ht c (by simp [hc]))
    simp [spanP, ha, this]

theorem quote_not_segws : isSegWs '"' = false := by decide
theorem dot_not_seg : isSeg '.' = false := by decide

/-! soundness of one piece -/
theorem piece_sound {s : List Char} {g : Seg} {r : List Char} (h : piece s = some (g, r)) :
    g.wf ∧ s = g.render ++ r := by
  unfold piece at h
  split at h
  · rename_i r0
    have sp := span_spec isSegWs r0
    split at h
    · rename_i a t r' heq
      simp only [Option.some.injEq, Prod.mk.injEq] at h
      obtain ⟨rfl, rfl⟩ := h
      rw [heq] at sp
      refine ⟨⟨by simp, sp.2.1⟩, ?_⟩
      simp only [Seg.render]
      rw [sp.1]; simp
    · cases h
  · rename_i r0 hnq
    have sp := span_spec isSeg r0
    split at h
    · rename_i a t r' heq
      simp only [Option.some.injEq, Prod.mk.injEq] at h
      obtain ⟨rfl, rfl⟩ := h
      rw [heq] at sp
      refine ⟨⟨by simp, sp.2.1⟩, ?_⟩
      simp only [Seg.render]
      rw [sp.1]; simp
    · cases h
  · cases h

/-- a follow set: what may come after a rendered piece -/
def Follow (r : List Char) : Prop := r = [] ∨ ∃ r', r = '.' :: r'

theorem piece_complete (g : Seg) (r : List Char) (hg : g.wf) (hr : Follow r) :
    piece (g.render ++ r) = some (g, r) := by
  cases g with
  | plain t =>
    obtain ⟨hne, hall⟩ := hg
    have hsp : spanP isSeg (t ++ r) = (t, r) := by
      apply span_append _ _ _ hall
      rcases hr with rfl | ⟨r', rfl⟩
      · left; rfl
      · right; exact ⟨'.', r', rfl, dot_not_seg⟩
    cases t with
    | nil => exact absurd rfl hne
    | cons a t' =>
      have ha : isSeg a = true := hall a (by simp)
      have hq : a ≠ '"' := by intro h; subst h; revert ha; decide
      simp only [Seg.render, List.cons_append]
      unfold piece
      split
      · rename_i heq; simp at heq; exact absurd heq.1 hq
      · rename_i r0 _ heq
        simp only [List.cons.injEq, true_and] at heq
        subst heq
        have : spanP isSeg (a :: (t' ++ r)) = (a :: t', r) := by simpa using hsp
        simp [this]
      · rename_i h1 h2; exact absurd rfl (h2 _)
  | quoted t =>
    obtain ⟨hne, hall⟩ := hg
    have hsp : spanP isSegWs (t ++ '"' :: r) = (t, '"' :: r) :=
      span_append _ _ _ hall (Or.inr ⟨'"', r, rfl, quote_not_segws⟩)
    cases t with
    | nil => exact absurd rfl hne
    | cons a t' =>
      simp only [Seg.render, List.cons_append, List.append_assoc, List.nil_append]
      unfold piece
      have : spanP isSegWs (a :: (t' ++ '"' :: r)) = (a :: t', '"' :: r) := by simpa using hsp
      simp [this]

theorem render_follow (gs : List Seg) : Follow (gs.flatMap Seg.render) := by
  cases gs with
  | nil => left; rfl
  | cons g gs => right; cases g <;> simp [Seg.render]

theorem piece_length {s : List Char} {g : Seg} {r : List Char} (h : piece s = some (g, r)) :
    r.length < s.length := by
  have := (piece_sound h).2
  subst this
  cases g <;> simp [Seg.render] <;> omega

/-! many -/
theorem many_sound : ∀ (f : Nat) (s : List Char) (gs : List Seg) (r : List Char),
    many f s = (gs, r) → (∀ g ∈ gs, g.wf) ∧ s = gs.flatMap Seg.render ++ r := by
  intro f
  induction f with
  | zero => intro s gs r h; simp [many] at h; obtain ⟨rfl, rfl⟩ := h; simp
  | succ f ih =>
    intro s gs r h
    unfold many at h
    split at h
    · simp at h; obtain ⟨rfl, rfl⟩ := h; simp
    · rename_i g r0 hp
      have ps := piece_sound hp
      generalize hm : many f r0 = res at h
      obtain ⟨gs', r'⟩ := res
      simp at h
      obtain ⟨rfl, rfl⟩ := h
      have := ih r0 gs' r' hm
      refine ⟨?_, ?_⟩
      · intro g' hg'; rcases List.mem_cons.mp hg' with rfl | h'
        · exact ps.1
        · exact this.1 g' h'
      · rw [ps.2, this.2]; simp [List.append_assoc]

theorem many_complete : ∀ (gs : List Seg) (f : Nat), gs.length < f → (∀ g ∈ gs, g.wf) →
    many f (gs.flatMap Seg.render) = (gs, []) := by
  intro gs
  induction gs with
  | nil => intro f hf _; cases f with | zero => omega | succ f => simp [many, piece]
  | cons g gs ih =>
    intro f hf hwf
    cases f with
    | zero => omega
    | succ f =>
      have hp : piece (g.render ++ gs.flatMap Seg.render) = some (g, gs.flatMap Seg.render) :=
        piece_complete g _ (hwf g (by simp)) (render_follow gs)
      have hm := ih f (by simp at hf; omega) (fun g' hg' => hwf g' (by simp [hg']))
      simp [many, hp, hm]

/-- fuel adequacy: with fuel > |s| the greedy loop stops only when `piece` fails -/
theorem many_rest_stuck : ∀ (f : Nat) (s : List Char) (gs : List Seg) (r : List Char),
    s.length < f → many f s = (gs, r) → piece r = none := by
  intro f
  induction f with
  | zero => intro s gs r h; omega
  | succ f ih =>
    intro s gs r hf h
    unfold many at h
    split at h
    · rename_i hp; simp at h; obtain ⟨_, rfl⟩ := h; exact hp
    · rename_i g r0 hp
      have hl := piece_length hp
      generalize hm : many f r0 = res at h
      obtain ⟨gs', r'⟩ := res
      simp at h
      obtain ⟨_, rfl⟩ := h
      exact ih r0 gs' r' (by omega) hm

/-- C18 core: the accepted language is exactly the renderings of non-empty well-formed segment lists -/
theorem parse_iff (s : List Char) (gs : List Seg) :
    parse s = some gs ↔ gs ≠ [] ∧ (∀ g ∈ gs, g.wf) ∧ s = gs.flatMap Seg.render := by
  constructor
  · intro h
    unfold parse at h
    split at h
    · rename_i g gs' hm
      cases h
      have := many_sound _ _ _ _ hm
      exact ⟨by simp, this.1, by simpa using this.2⟩
    · cases h
  · rintro ⟨hne, hwf, rfl⟩
    have hlen : gs.length < (gs.flatMap Seg.render).length + 1 := by
      have : ∀ l : List Seg, l.length ≤ (l.flatMap Seg.render).length := by
        intro l; induction l with
        | nil => simp
        | cons g l ih =>
          rw [List.flatMap_cons, List.length_append, List.length_cons]
          have : 1 ≤ g.render.length := by cases g <;> simp [Seg.render]
          omega
      have := this gs; omega
    have hm := many_complete gs _ hlen hwf
    unfold parse
    rw [hm]
    cases gs with
    | nil => exact absurd rfl hne
    | cons g gs => rfl

/-- C15 (matcher.rs:279 `XPath::from_str(field_path.as_str()).unwrap()`): whatever prefix the un-anchored
    `field_path` rule matched inside a match string, that span re-parses to the same segments -/
theorem matched_span_reparses (f : Nat) (s : List Char) (g : Seg) (gs : List Seg) (r : List Char)
    (h : many f s = (g :: gs, r)) :
    s = (g :: gs).flatMap Seg.render ++ r ∧ parse ((g :: gs).flatMap Seg.render) = some (g :: gs) := by
  have ms := many_sound f s (g :: gs) r h
  exact ⟨ms.2, (parse_iff _ _).mpr ⟨by simp, ms.1, rfl⟩⟩

-- non-vacuity
example : parse ".a.\"b c\".d".toList = some [.plain ['a'], .quoted "b c".toList, .plain ['d']] := by decide
example : parse ".a.b garbage".toList = none := by decide
example : parse ".a..b".toList = none := by decide
end PathP
