/-! scratch prototype for C03: literal reading (matcher.rs:283-317) and per-operator dispatch
    (matcher.rs:357-433). Number parsing/equality/order/bit test and regex search are parameters. -/
namespace FTest

abbrev Str := List Char

variable {Num : Type}

inductive FV (Num : Type) | str (s : Str) | num (n : Num) | bool (b : Bool) | some | none
inductive MV (Num : Type) | str (s : Str) | num (n : Num) | strOrNum (s : Str) (n : Num) | rex (p : Str) | bool (b : Bool) | some | none
inductive Op | eq | lt | lte | gt | gte | rex | flag  deriving DecidableEq
inductive Out | ok (b : Bool) | err | panic  deriving DecidableEq, Repr

/-- the `value` token of match.pest, by construction of the grammar -/
inductive Kw | none | some | true | false  deriving DecidableEq
inductive Tok | dq (body : Str) | sq (body : Str) | kw (k : Kw)
def Tok.wf : Tok → Prop
  | .dq b => '"' ∉ b
  | .sq b => '\'' ∉ b
  | .kw _ => True
def Kw.text : Kw → Str | .none => "none".toList | .some => "some".toList | .true => "true".toList | .false => "false".toList
def Tok.text : Tok → Str
  | .dq b => '"' :: (b ++ ['"'])
  | .sq b => '\'' :: (b ++ ['\''])
  | .kw k => k.text

/-- C03: "the characters between the literal's outer quotes" -/
def Tok.body : Tok → Str | .dq b => b | .sq b => b | .kw k => k.text

structure Env (Num : Type) where
  parseNum : Str → Option Num                 -- Number::from_str
  numEq : Num → Num → Bool
  numCmp : Num → Num → Option Ordering
  bitTest : Num → Num → Option Bool           -- repaired `&=`: none = incompatible kinds
  bitTestCur : Num → Num → Option Bool        -- today's: none = panic
  rx : Str → Option (Str → Bool)              -- Regex::new + is_match

/-! ### Rust string helpers -/
def trimStart (c : Char) (s : Str) : Str := s.dropWhile (· == c)
def trimMatches (c : Char) (s : Str) : Str := (trimStart c (trimStart c s).reverse).reverse

/-- today's `str_value.trim_matches('\'').trim_matches('"')` -/
def sanitCur (t : Str) : Str := trimMatches '"' (trimMatches '\'' t)

/-- repaired: strip exactly the outer pair of a quoted token -/
def sanitFix (t : Str) : Str :=
  match t with
  | '"' :: r => if r.getLast? = some '"' then r.dropLast else t
  | '\'' :: r => if r.getLast? = some '\'' then r.dropLast else t
  | _ => t

inductive CErr | num | regex  deriving DecidableEq
/-- literal classification of DirectMatch::from_str, parametric in the sanitiser -/
def classify (E : Env Num) (sanit : Str → Str) (op : Op) (t : Str) : Except CErr (MV Num) :=
  let s := sanit t
  let number : Except CErr (MV Num) := match E.parseNum s with | some n => .ok (.num n) | none => .error .num
  match op with
  | .eq =>
    if t = "none".toList then .ok .none
    else if t = "some".toList then .ok .some
    else if t = "true".toList then .ok (.bool true)
    else if t = "false".toList then .ok (.bool false)
    else match E.parseNum s with
      | some n => .ok (.strOrNum s n)
      | none => .ok (.str s)
  | .rex => match E.rx s with | some _ => .ok (.rex s) | none => .error .regex
  | _ => number

def isSome : FV Num → Bool | .none => false | _ => true

def cmpOp (E : Env Num) (op : Op) (a b : Num) : Bool :=
  match op, E.numCmp a b with
  | .lt, some .lt => true
  | .lte, some .lt => true | .lte, some .eq => true
  | .gt, some .gt => true
  | .gte, some .gt => true | .gte, some .eq => true
  | _, _ => false

/-- match_value; `fixNone`: the repaired `is none`; `fixBit`: the repaired `&=` -/
def matchValue (E : Env Num) (fixNone fixBit : Bool) (op : Op) (mv : MV Num) (tgt : FV Num) : Out :=
  -- string → number coercion when the literal is a plain number
  let fvE : Except Unit (FV Num) :=
    match tgt, mv with
    | .str s, .num _ => match E.parseNum s with | some n => .ok (.num n) | none => .error ()
    | _, _ => .ok tgt
  match fvE with
  | .error _ => .err
  | .ok fv =>
    match op with
    | .eq =>
      match fv, mv with
      | .str v, .str o => .ok (v == o)
      | .none, .none => .ok true
      | .str s, .strOrNum v _ => .ok (s == v)
      | .num n, .strOrNum _ v => .ok (E.numEq n v)
      | .bool a, .bool b => .ok (a == b)
      | _, .some => .ok (isSome fv)
      | _, .none => if fixNone then .ok false else .err
      | _, _ => .err
    | .rex => match mv, fv with
      | .rex p, .str o => (match E.rx p with | some f => .ok (f o) | none => .err)
      | _, _ => .err
    | .flag => match mv, fv with
      | .num v, .num o =>
        if fixBit then (match E.bitTest v o with | some b => .ok b | none => .err)
        else (match E.bitTestCur v o with | some b => .ok b | none => .panic)
      | _, _ => .err
    | _ => match fv, mv with
      | .num v, .num o => .ok (cmpOp E op v o)
      | _, _ => .err

inductive R | compileErr | out (o : Out)  deriving DecidableEq

def model (E : Env Num) (sanit : Str → Str) (fixNone fixBit : Bool) (op : Op) (t : Tok) (fv : Option (FV Num)) : R :=
  match classify E sanit op t.text with
  | .error _ => .compileErr
  | .ok mv => match fv with
    | none => .out .err          -- FieldNotFound
    | some v => .out (matchValue E fixNone fixBit op mv v)

/-! ### the statement of C03 as a table -/
def spec (E : Env Num) (op : Op) (t : Tok) (fv : Option (FV Num)) : R :=
  let b := t.body
  let asNum (k : Num → FV Num → Out) : R :=
    match E.parseNum b with
    | none => .compileErr
    | some n => match fv with
      | none => .out .err
      | some (.num m) => .out (k n (.num m))
      | some (.str s) => (match E.parseNum s with | some m => .out (k n (.num m)) | none => .out .err)
      | some _ => .out .err
  match op with
  | .eq =>
    match fv with
    | none => .out .err
    | some v =>
      match t with
      | .kw .none => .out (.ok (!isSome v))
      | .kw .some => .out (.ok (isSome v))
      | .kw .true => (match v with | .bool a => .out (.ok (a == true)) | _ => .out .err)
      | .kw .false => (match v with | .bool a => .out (.ok (a == false)) | _ => .out .err)
      | _ =>
        match v with
        | .str s => .out (.ok (s == b))
        | .num m => (match E.parseNum b with | some n => .out (.ok (E.numEq m n)) | none => .out .err)
        | _ => .out .err
  | .rex =>
    match E.rx b with
    | none => .compileErr
    | some f => match fv with
      | some (.str s) => .out (.ok (f s))
      | _ => .out .err
  | .flag => asNum (fun n v => match v with | .num m => (match E.bitTest n m with | some r => .ok r | none => .err) | _ => .err)
  | o => asNum (fun n v => match v with | .num m => .ok (cmpOp E o m n) | _ => .err)

/-! ### quote stripping -/
theorem getLast_append_single (b : Str) (c : Char) : (b ++ [c]).getLast? = some c := by simp
theorem sanitFix_text (t : Tok) : sanitFix t.text = t.body := by
  cases t with
  | dq b => simp [Tok.text, Tok.body, sanitFix]
  | sq b => simp [Tok.text, Tok.body, sanitFix]
  | kw k => cases k <;> rfl

theorem kw_text_ne_quoted (k : Kw) (b : Str) : k.text ≠ '"' :: (b ++ ['"']) ∧ k.text ≠ '\'' :: (b ++ ['\'']) := by
  cases k <;> simp [Kw.text]

/-- the keyword tests of `from_str` fire exactly on keyword tokens -/
theorem text_eq_kw (t : Tok) (k : Kw) : t.text = k.text ↔ t = .kw k := by
  constructor
  · intro h
    cases t with
    | dq b => exact absurd h.symm (kw_text_ne_quoted k b).1
    | sq b => exact absurd h.symm (kw_text_ne_quoted k b).2
    | kw k' => cases k <;> cases k' <;> first | rfl | (simp [Tok.text, Kw.text] at h)
  · rintro rfl; rfl

/-- C03 for the repaired code: for every operator, every value token, every field value (or none) -/
theorem fixed_matches_spec (E : Env Num) (op : Op) (t : Tok) (fv : Option (FV Num)) :
    model E sanitFix true true op t fv = spec E op t fv := by
  unfold model classify
  simp only [sanitFix_text]
  cases op with
  | eq =>
    have hn := text_eq_kw t .none; have hs := text_eq_kw t .some
    have ht := text_eq_kw t .true; have hf := text_eq_kw t .false
    simp only [Kw.text] at hn hs ht hf
    cases t with
    | kw k =>
      cases k <;> cases fv with
      | none => simp [Tok.text, Kw.text, spec]
      | some v => cases v <;> simp [Tok.text, Kw.text, spec, matchValue, isSome]
    | dq b =>
      have e1 : (Tok.dq b).text ≠ "none".toList := fun h => by simpa using hn.mp h
      have e2 : (Tok.dq b).text ≠ "some".toList := fun h => by simpa using hs.mp h
      have e3 : (Tok.dq b).text ≠ "true".toList := fun h => by simpa using ht.mp h
      have e4 : (Tok.dq b).text ≠ "false".toList := fun h => by simpa using hf.mp h
      simp only [e1, e2, e3, e4, if_false, Tok.body]
      cases hp : E.parseNum b <;> cases fv with
      | none => simp [spec]
      | some v => cases v <;> simp [spec, matchValue, Tok.body, hp, isSome]
    | sq b =>
      have e1 : (Tok.sq b).text ≠ "none".toList := fun h => by simpa using hn.mp h
      have e2 : (Tok.sq b).text ≠ "some".toList := fun h => by simpa using hs.mp h
      have e3 : (Tok.sq b).text ≠ "true".toList := fun h => by simpa using ht.mp h
      have e4 : (Tok.sq b).text ≠ "false".toList := fun h => by simpa using hf.mp h
      simp only [e1, e2, e3, e4, if_false, Tok.body]
      cases hp : E.parseNum b <;> cases fv with
      | none => simp [spec]
      | some v => cases v <;> simp [spec, matchValue, Tok.body, hp, isSome]
  | rex =>
    cases hr : E.rx t.body <;> cases fv with
    | none => simp [spec, hr]
    | some v => cases v <;> simp [spec, hr, matchValue]
  | flag =>
    cases hp : E.parseNum t.body <;> cases fv with
    | none => simp [spec, hp]
    | some v =>
      cases v with
      | str s => cases hs : E.parseNum s <;> simp [spec, hp, hs, matchValue]
      | _ => simp [spec, hp, matchValue]
  | lt =>
    cases hp : E.parseNum t.body <;> cases fv with
    | none => simp [spec, hp]
    | some v =>
      cases v with
      | str s => cases hs : E.parseNum s <;> simp [spec, hp, hs, matchValue]
      | _ => simp [spec, hp, matchValue]
  | lte =>
    cases hp : E.parseNum t.body <;> cases fv with
    | none => simp [spec, hp]
    | some v =>
      cases v with
      | str s => cases hs : E.parseNum s <;> simp [spec, hp, hs, matchValue]
      | _ => simp [spec, hp, matchValue]
  | gt =>
    cases hp : E.parseNum t.body <;> cases fv with
    | none => simp [spec, hp]
    | some v =>
      cases v with
      | str s => cases hs : E.parseNum s <;> simp [spec, hp, hs, matchValue]
      | _ => simp [spec, hp, matchValue]
  | gte =>
    cases hp : E.parseNum t.body <;> cases fv with
    | none => simp [spec, hp]
    | some v =>
      cases v with
      | str s => cases hs : E.parseNum s <;> simp [spec, hp, hs, matchValue]
      | _ => simp [spec, hp, matchValue]

/-! ### today's code violates the statement: concrete witnesses (also replayed on the real crate) -/
def E0 : Env Nat := { parseNum := fun _ => none, numEq := (· == ·), numCmp := fun a b => some (compare a b),
                      bitTest := fun _ _ => none, bitTestCur := fun _ _ => none, rx := fun _ => none }

/-- `.x == '"a"'` matches the field value `a` (the inner quotes are trimmed too) -/
theorem cur_quote_witness :
    model E0 sanitCur false false .eq (.sq "\"a\"".toList) (some (.str "a".toList)) ≠
      spec E0 .eq (.sq "\"a\"".toList) (some (.str "a".toList)) := by decide

/-- `.x is none` on a present text value is an error, not `false` -/
theorem cur_none_witness :
    model E0 sanitCur false false .eq (.kw .none) (some (.str "a".toList)) ≠
      spec E0 .eq (.kw .none) (some (.str "a".toList)) := by decide
end FTest
