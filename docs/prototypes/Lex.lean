/-! scratch prototype for C16/C15: a tokenizer for condition.pest's alphabet with implicit optional spaces,
    and the accounting theorem: the tokens' texts concatenate to exactly the non-space characters of the
    input (nothing is skipped except spaces, nothing is left over) -/
namespace Lex

abbrev Str := List Char

inductive Tok
  | var (name : Str)        -- `$` ~ (ALNUM | _)+ , text includes the `$`
  | num (digits : Str)
  | lit (text : Str)        -- keywords, operators, parentheses
  deriving DecidableEq, Repr

def Tok.text : Tok → Str | .var n => n | .num d => d | .lit t => t

def isIdent (c : Char) : Bool := c.isAlphanum || c == '_'
def isDig (c : Char) : Bool := c.isDigit

def spanP (p : Char → Bool) : List Char → List Char × List Char
  | [] => ([], [])
  | c :: r => if p c then ((spanP p r).1.cons c, (spanP p r).2) else ([], c :: r)

theorem spanP_append (p : Char → Bool) (l : List Char) : (spanP p l).1 ++ (spanP p l).2 = l := by
  induction l with
  | nil => rfl
  | cons a l ih => unfold spanP; split <;> simp [ih]

theorem spanP_len (p : Char → Bool) (l : List Char) : (spanP p l).2.length ≤ l.length := by
  have := congrArg List.length (spanP_append p l); simp at this; omega

/-- the literals of the grammar, in an order where no literal shadows a longer one -/
def lits : List Str :=
  ["them", "none", "all", "any", "and", "AND", "not", "of", "or", "OR", "&&", "||", "!", "(", ")"].map String.toList

def matchLit : List Str → Str → Option (Str × Str)
  | [], _ => none
  | l :: ls, s => if l.isPrefixOf s then some (l, s.drop l.length) else matchLit ls s

/-- one token at the head of `s` (no leading space) -/
def tok1 (s : Str) : Option (Tok × Str) :=
  match s with
  | '$' :: r =>
    match spanP isIdent r with
    | (a :: t, r') => some (.var ('$' :: a :: t), r')
    | _ => none
  | c :: r =>
    if isDig c then some (.num (c :: (spanP isDig r).1), (spanP isDig r).2)
    else (matchLit lits (c :: r)).map (fun (l, r') => (.lit l, r'))
  | [] => none

def lexGo : Nat → Str → Option (List Tok)
  | 0, _ => none
  | _+1, [] => some []
  | f+1, c :: r =>
    if c = ' ' then lexGo f r                  -- implicit WHITESPACE*
    else match tok1 (c :: r) with
      | none => none
      | some (t, r') => (lexGo f r').map (t :: ·)

def lex (s : Str) : Option (List Tok) := lexGo (s.length + 1) s

def noSpace (s : Str) : Str := s.filter (· != ' ')

theorem matchLit_sound : ∀ (ls : List Str) (s l r : Str), matchLit ls s = some (l, r) → s = l ++ r := by
  intro ls
  induction ls with
  | nil => intro s l r h; cases h
  | cons x xs ih =>
    intro s l r h
    unfold matchLit at h
    split at h
    · rename_i hp
      simp only [Option.some.injEq, Prod.mk.injEq] at h
      obtain ⟨rfl, rfl⟩ := h
      have := List.isPrefixOf_iff_prefix.mp hp
      obtain ⟨t, rfl⟩ := this
      simp
    · exact ih s l r h

theorem tok1_sound {s : Str} {t : Tok} {r : Str} (h : tok1 s = some (t, r)) : s = t.text ++ r := by
  unfold tok1 at h
  split at h
  · rename_i r0
    have sp := spanP_append isIdent r0
    split at h
    · rename_i a tl r' heq
      simp only [Option.some.injEq, Prod.mk.injEq] at h
      obtain ⟨rfl, rfl⟩ := h
      rw [heq] at sp
      simp [Tok.text, ← sp]
    · cases h
  · rename_i c r0 _
    split at h
    · simp only [Option.some.injEq, Prod.mk.injEq] at h
      obtain ⟨rfl, rfl⟩ := h
      simp [Tok.text, spanP_append]
    · cases hm : matchLit lits (c :: r0) with
      | none => rw [hm] at h; cases h
      | some x =>
        obtain ⟨l, r'⟩ := x
        rw [hm] at h
        simp only [Option.map_some, Option.some.injEq, Prod.mk.injEq] at h
        obtain ⟨rfl, rfl⟩ := h
        exact matchLit_sound lits _ _ _ hm
  · cases h

/-- token texts never contain a space (so they survive `noSpace` unchanged) -/
def NoSp (s : Str) : Prop := ∀ c ∈ s, c ≠ ' '

theorem noSpace_of_NoSp (s : Str) (h : NoSp s) : noSpace s = s := by
  unfold noSpace
  rw [List.filter_eq_self]
  intro c hc; simpa using h c hc

theorem spanP_all (p : Char → Bool) (l : List Char) : ∀ c ∈ (spanP p l).1, p c = true := by
  induction l with
  | nil => simp [spanP]
  | cons a l ih =>
    unfold spanP
    by_cases ha : p a = true
    · simp only [ha, if_true]; intro c hc; rcases List.mem_cons.mp hc with rfl | h
      · exact ha
      · exact ih c h
    · simp [ha]

theorem lits_nosp : ∀ l ∈ lits, NoSp l := by
  have h : lits.all (fun l => l.all (fun c => c != ' ')) = true := by decide
  intro l hl c hc
  have := List.all_eq_true.mp h l hl
  have := List.all_eq_true.mp this c hc
  simpa using this

theorem matchLit_mem : ∀ (ls : List Str) (s l r : Str), matchLit ls s = some (l, r) → l ∈ ls := by
  intro ls
  induction ls with
  | nil => intro s l r h; cases h
  | cons x xs ih =>
    intro s l r h
    unfold matchLit at h
    split at h
    · simp only [Option.some.injEq, Prod.mk.injEq] at h; obtain ⟨rfl, _⟩ := h; simp
    · exact List.mem_cons_of_mem _ (ih s l r h)

theorem ident_not_space : isIdent ' ' = false := by decide
theorem dig_not_space : isDig ' ' = false := by decide

theorem tok1_nosp {s : Str} {t : Tok} {r : Str} (h : tok1 s = some (t, r)) : NoSp t.text := by
  unfold tok1 at h
  split at h
  · rename_i r0
    have sa := spanP_all isIdent r0
    split at h
    · rename_i a tl r' heq
      simp only [Option.some.injEq, Prod.mk.injEq] at h
      obtain ⟨rfl, rfl⟩ := h
      rw [heq] at sa
      intro c hc
      simp only [Tok.text, List.mem_cons] at hc
      rcases hc with rfl | hc
      · decide
      · intro hsp; subst hsp
        have := sa ' ' (by simpa using hc)
        rw [ident_not_space] at this; cases this
    · cases h
  · rename_i c r0 _
    split at h
    · rename_i hd
      simp only [Option.some.injEq, Prod.mk.injEq] at h
      obtain ⟨rfl, rfl⟩ := h
      intro x hx
      simp only [Tok.text, List.mem_cons] at hx
      intro hsp; subst hsp
      rcases hx with rfl | hx
      · rw [dig_not_space] at hd; cases hd
      · have := spanP_all isDig r0 ' ' hx; rw [dig_not_space] at this; cases this
    · cases hm : matchLit lits (c :: r0) with
      | none => rw [hm] at h; cases h
      | some x =>
        obtain ⟨l, r'⟩ := x
        rw [hm] at h
        simp only [Option.map_some, Option.some.injEq, Prod.mk.injEq] at h
        obtain ⟨rfl, rfl⟩ := h
        exact lits_nosp l (matchLit_mem lits _ _ _ hm)
  · cases h

/-- C16 accounting: every non-space character of an accepted input belongs to exactly one token, in order -/
theorem lex_accounts : ∀ (f : Nat) (s : Str) (toks : List Tok), lexGo f s = some toks →
    toks.flatMap Tok.text = noSpace s := by
  intro f
  induction f with
  | zero => intro s toks h; cases h
  | succ f ih =>
    intro s toks h
    cases s with
    | nil => simp [lexGo] at h; subst h; rfl
    | cons c r =>
      by_cases hc : c = ' '
      · subst hc
        simp only [lexGo, if_true] at h
        rw [ih r toks h]; simp [noSpace]
      · simp only [lexGo, hc, if_false] at h
        cases ht : tok1 (c :: r) with
        | none => rw [ht] at h; cases h
        | some x =>
          obtain ⟨t, r'⟩ := x
          rw [ht] at h
          simp only at h
          cases hl : lexGo f r' with
          | none => rw [hl] at h; cases h
          | some rest =>
            rw [hl] at h
            simp only [Option.map_some, Option.some.injEq] at h
            subst h
            have e1 := tok1_sound ht
            have e2 := tok1_nosp ht
            rw [e1, List.flatMap_cons, ih r' rest hl]
            unfold noSpace
            rw [List.filter_append]
            congr 1
            exact (noSpace_of_NoSp _ e2).symm

example : lex "1ofthem".toList = some [.num "1".toList, .lit "of".toList, .lit "them".toList] := by decide
example : lex "4 2 of them".toList = some [.num "4".toList, .num "2".toList, .lit "of".toList, .lit "them".toList] := by decide
example : lex "$aand $b".toList = some [.var "$aand".toList, .var "$b".toList] := by decide
example : lex "not$a&&( $b||$c )".toList =
    some [.lit "not".toList, .var "$a".toList, .lit "&&".toList, .lit "(".toList, .var "$b".toList,
          .lit "||".toList, .var "$c".toList, .lit ")".toList] := by decide
end Lex
