/-! scratch prototype for C04: `Number` ordering. Today: derived PartialOrd (variant index first).
    Planned repair: mathematical comparison across variants. Floats by their exact value (k·2⁻¹⁰⁷⁴). -/
namespace NumCmp

def S : Int := 2 ^ 1074
theorem S_pos : 0 < S := by unfold S; exact Int.pow_pos (by decide)

inductive FVal | nan | ninf | pinf | fin (k : Int)  deriving DecidableEq, Repr
inductive Num | int (v : Int) | uint (v : Nat) | float (x : FVal)  deriving DecidableEq, Repr

def cmpI (a b : Int) : Ordering := if a < b then .lt else if a = b then .eq else .gt

def FVal.cmp : FVal → FVal → Option Ordering
  | .nan, _ | _, .nan => none
  | .ninf, .ninf => some .eq | .ninf, _ => some .lt | _, .ninf => some .gt
  | .pinf, .pinf => some .eq | .pinf, _ => some .gt | _, .pinf => some .lt
  | .fin a, .fin b => some (cmpI a b)

/-- the mathematical value of a number -/
def Num.real : Num → FVal
  | .int v => .fin (v * S)
  | .uint v => .fin ((v : Int) * S)
  | .float x => x

/-- C04: mathematical order -/
def cmpSpec (a b : Num) : Option Ordering := FVal.cmp a.real b.real

/-- today: `#[derive(PartialOrd)]` on `enum Number { Int, Uint, Float }` -/
def cmpCur : Num → Num → Option Ordering
  | .int a, .int b => some (cmpI a b)
  | .uint a, .uint b => some (cmpI a b)
  | .float a, .float b => FVal.cmp a b
  | .int _, _ => some .lt
  | .uint _, .int _ => some .gt
  | .uint _, .float _ => some .lt
  | .float _, _ => some .gt

def swapO : Ordering → Ordering | .lt => .gt | .eq => .eq | .gt => .lt

/-- int vs float, exact (see Flt.lean): bounds, compare with trunc, tie-break -/
def cmpIntFloat (i : Int) : FVal → Option Ordering
  | .nan => none
  | .pinf => some .lt
  | .ninf => some .gt
  | .fin k => let q := k.tdiv S
    if i < q then some .lt else if q < i then some .gt else some (cmpI (q * S) k)

/-- planned `impl PartialOrd for Number` -/
def cmpFix : Num → Num → Option Ordering
  | .int a, .int b => some (cmpI a b)
  | .uint a, .uint b => some (cmpI a b)
  | .float a, .float b => FVal.cmp a b
  | .int a, .uint b => some (cmpI a b)
  | .uint a, .int b => some (cmpI a b)
  | .int a, .float f => cmpIntFloat a f
  | .uint a, .float f => cmpIntFloat a f
  | .float f, .int a => (cmpIntFloat a f).map swapO
  | .float f, .uint a => (cmpIntFloat a f).map swapO

theorem cmpI_scale (a b : Int) : cmpI (a * S) (b * S) = cmpI a b := by
  have hS := S_pos
  unfold cmpI
  by_cases h1 : a < b
  · have : a * S < b * S := Int.mul_lt_mul_of_pos_right h1 hS
    simp [h1, this]
  · by_cases h2 : a = b
    · subst h2; simp
    · have h3 : b < a := by omega
      have : b * S < a * S := Int.mul_lt_mul_of_pos_right h3 hS
      have n1 : ¬ a * S < b * S := by omega
      have n2 : a * S ≠ b * S := by omega
      simp [h1, h2, n1, n2]

theorem cmp_scaled (i k : Int) :
    cmpI (i * S) k = (if i < k.tdiv S then .lt else if k.tdiv S < i then .gt else cmpI (k.tdiv S * S) k) := by
  have hs := S_pos
  have hk : k.tdiv S * S + k.tmod S = k := by have := Int.tmod_add_tdiv_mul k S; omega
  have hr1 : k.tmod S < S := Int.tmod_lt_of_pos k hs
  have hr2 : -S < k.tmod S := by
    have := Int.tmod_lt_of_pos (-k) hs
    rw [Int.neg_tmod] at this; omega
  generalize k.tdiv S = q at *
  generalize k.tmod S = r at *
  by_cases h1 : i < q
  · simp only [h1, if_true]
    have : (i + 1) * S ≤ q * S := Int.mul_le_mul_of_nonneg_right (by omega) (by omega)
    rw [Int.add_mul] at this
    unfold cmpI; have : i * S < k := by omega
    simp [this]
  · simp only [h1, if_false]
    by_cases h2 : q < i
    · simp only [h2, if_true]
      have : (q + 1) * S ≤ i * S := Int.mul_le_mul_of_nonneg_right (by omega) (by omega)
      rw [Int.add_mul] at this
      unfold cmpI
      have n1 : ¬ i * S < k := by omega
      have n2 : i * S ≠ k := by omega
      simp [n1, n2]
    · simp only [h2, if_false]
      have : i = q := by omega
      subst this; rfl

theorem cmpIntFloat_exact (i : Int) (v : FVal) : cmpIntFloat i v = FVal.cmp (.fin (i * S)) v := by
  cases v with
  | nan => rfl
  | ninf => rfl
  | pinf => rfl
  | fin k =>
    simp only [cmpIntFloat, FVal.cmp]
    rw [cmp_scaled i k]
    split
    · rfl
    · split <;> rfl

theorem cmpI_swap (a b : Int) : swapO (cmpI a b) = cmpI b a := by
  unfold cmpI
  by_cases h1 : a < b
  · have : ¬ b < a := by omega
    have : b ≠ a := by omega
    simp [h1, swapO, *]
  · by_cases h2 : a = b
    · subst h2; simp [swapO]
    · have : b < a := by omega
      simp [h1, h2, swapO, this]

theorem FVal_cmp_swap (a b : FVal) : (FVal.cmp a b).map swapO = FVal.cmp b a := by
  cases a <;> cases b <;> first
    | rfl
    | (simp only [FVal.cmp, Option.map_some]; rw [cmpI_swap])

/-- C04 for the repaired comparison: every pair of numbers, every representation -/
theorem cmpFix_exact (a b : Num) : cmpFix a b = cmpSpec a b := by
  cases a with
  | int x => cases b with
    | int y => simp only [cmpFix, cmpSpec, Num.real, FVal.cmp, cmpI_scale]
    | uint y => simp only [cmpFix, cmpSpec, Num.real, FVal.cmp, cmpI_scale]
    | float f => simp only [cmpFix, cmpSpec, Num.real, cmpIntFloat_exact]
  | uint x => cases b with
    | int y => simp only [cmpFix, cmpSpec, Num.real, FVal.cmp, cmpI_scale]
    | uint y => simp only [cmpFix, cmpSpec, Num.real, FVal.cmp, cmpI_scale]
    | float f => simp only [cmpFix, cmpSpec, Num.real, cmpIntFloat_exact]
  | float f => cases b with
    | int y => simp only [cmpFix, cmpSpec, Num.real, cmpIntFloat_exact]; exact FVal_cmp_swap _ _
    | uint y => simp only [cmpFix, cmpSpec, Num.real, cmpIntFloat_exact]; exact FVal_cmp_swap _ _
    | float g => simp only [cmpFix, cmpSpec, Num.real]

/-- today's order is right on same-kind pairs and on Int-vs-Uint when `Int` holds a negative value -/
theorem cmpCur_partial (a b : Num)
    (h : (∃ x y, a = .int x ∧ b = .int y) ∨ (∃ x y, a = .uint x ∧ b = .uint y) ∨
         (∃ x y, a = .float x ∧ b = .float y) ∨ (∃ x y, a = .int x ∧ b = .uint y ∧ x < 0) ∨
         (∃ x y, a = .uint x ∧ b = .int y ∧ y < 0)) :
    cmpCur a b = cmpSpec a b := by
  rcases h with ⟨x, y, rfl, rfl⟩ | ⟨x, y, rfl, rfl⟩ | ⟨x, y, rfl, rfl⟩ | ⟨x, y, rfl, rfl, hx⟩ | ⟨x, y, rfl, rfl, hy⟩
  · simp [cmpCur, cmpSpec, Num.real, FVal.cmp, cmpI_scale]
  · simp [cmpCur, cmpSpec, Num.real, FVal.cmp, cmpI_scale]
  · simp [cmpCur, cmpSpec, Num.real]
  · simp only [cmpCur, cmpSpec, Num.real, FVal.cmp, cmpI_scale]
    unfold cmpI; have : x < (y : Int) := by omega
    simp [this]
  · simp only [cmpCur, cmpSpec, Num.real, FVal.cmp, cmpI_scale]
    unfold cmpI
    have n1 : ¬ (x : Int) < y := by omega
    have n2 : (x : Int) ≠ y := by omega
    simp [n1, n2]

/-- and wrong across Float/integer: `2.5 > 42` (replayed on the real crate: `.x > '42'` matches 2.5) -/
theorem cmpCur_violates : cmpCur (.float (.fin (5 * 2 ^ 1073))) (.uint 42) ≠ cmpSpec (.float (.fin (5 * 2 ^ 1073))) (.uint 42) := by
  simp only [cmpCur, cmpSpec, Num.real, FVal.cmp, ne_eq, Option.some.injEq]
  unfold cmpI S
  have : (5 : Int) * 2 ^ 1073 < 42 * 2 ^ 1074 := by
    have : (2:Int) ^ 1074 = 2 * 2 ^ 1073 := by rw [Int.pow_succ]; omega
    rw [this]; have : (0:Int) < 2 ^ 1073 := Int.pow_pos (by decide); omega
  simp [this]

/-- trichotomy and the unions for non-NaN values follow from integer order -/
theorem trichotomy (a b : Num) (ha : a.real ≠ .nan) (hb : b.real ≠ .nan) : ∃ o, cmpSpec a b = some o := by
  unfold cmpSpec
  generalize a.real = x at *; generalize b.real = y at *
  cases x <;> cases y <;> simp_all [FVal.cmp]
theorem nan_unordered (a b : Num) (h : a.real = .nan ∨ b.real = .nan) : cmpSpec a b = none := by
  unfold cmpSpec
  rcases h with h | h <;> rw [h]
  · rfl
  · cases a.real <;> rfl
end NumCmp
