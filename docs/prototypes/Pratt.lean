/-! scratch prototype: pest's PrattParser (pratt_parser.rs expr/nud/led/lbp) specialised to gene's table
    or=10 < and=20 < prefix not=30, and its precedence-correctness theorem -/
namespace Pratt

inductive BOp | and | or deriving DecidableEq, Repr
inductive E (P : Type) | prim (p : P) | neg (e : E P) | bin (l : E P) (o : BOp) (r : E P) deriving Repr
inductive Tok (P : Type) | prim (p : P) | neg | op (o : BOp)

def prec : BOp → Nat | .or => 10 | .and => 20

variable {P : Type}

def lbp : List (Tok P) → Option Nat
  | [] => some 0
  | .op o :: _ => some (prec o)
  | .neg :: _ => some 30
  | .prim _ :: _ => none   -- panic "Expected operator"

/-- fuel-based transcription; `none` = panic or out of fuel -/
def expr : Nat → Nat → List (Tok P) → Option (E P × List (Tok P))
  | 0, _, _ => none
  | f+1, rbp, toks =>
    let nud : Option (E P × List (Tok P)) :=
      match toks with
      | [] => none
      | .neg :: rest => (expr f 29 rest).map fun (e, r) => (.neg e, r)
      | .prim p :: rest => some (.prim p, rest)
      | .op _ :: _ => none
    match nud with
    | none => none
    | some (lhs, rest) => loop f rbp lhs rest
where
  loop : Nat → Nat → E P → List (Tok P) → Option (E P × List (Tok P))
  | 0, _, _, _ => none
  | f+1, rbp, lhs, toks =>
    match lbp toks with
    | none => none
    | some l =>
      if rbp < l then
        match toks with
        | .op o :: rest =>
          match expr f (prec o) rest with
          | none => none
          | some (rhs, rest') => loop f rbp (.bin lhs o rhs) rest'
        | _ => none
      else some (lhs, toks)

def ev (v : P → Bool) : E P → Bool
  | .prim p => v p
  | .neg e => !ev v e
  | .bin l .and r => ev v l && ev v r
  | .bin l .or r => ev v l || ev v r

structure Atom (P : Type) where
  negd : Bool
  p : P

def atomToks (a : Atom P) : List (Tok P) := (if a.negd then [Tok.neg] else []) ++ [Tok.prim a.p]
def atomE (a : Atom P) : E P := if a.negd then .neg (.prim a.p) else .prim a.p
def atomVal (v : P → Bool) (a : Atom P) : Bool := if a.negd then !v a.p else v a.p

theorem ev_atomE (v : P → Bool) (a : Atom P) : ev v (atomE a) = atomVal v a := by
  unfold atomE atomVal; split <;> simp [ev]

abbrev Item (P : Type) := BOp × Atom P

def tailToks (rest : List (Item P)) : List (Tok P) :=
  rest.flatMap (fun (o, b) => Tok.op o :: atomToks b)

@[simp] theorem tailToks_nil : tailToks ([] : List (Item P)) = [] := rfl
@[simp] theorem tailToks_cons (o : BOp) (b : Atom P) (r : List (Item P)) :
    tailToks ((o, b) :: r) = Tok.op o :: (atomToks b ++ tailToks r) := by
  simp [tailToks]

/-- reference meaning: disjunction of conjunctions; `acc` = value of the current and-chain -/
def dnf (v : P → Bool) (acc : Bool) : List (Item P) → Bool
  | [] => acc
  | (.and, b) :: rest => dnf v (acc && atomVal v b) rest
  | (.or, b) :: rest => acc || dnf v (atomVal v b) rest

theorem lbp_tail (rest : List (Item P)) :
    lbp (tailToks rest) = some (match rest with | [] => 0 | (o, _) :: _ => prec o) := by
  cases rest with
  | nil => rfl
  | cons x r => obtain ⟨o, b⟩ := x; simp [lbp]

/-- the loop returns immediately when the next operator does not bind tighter than rbp -/
theorem loop_stop (g rbp : Nat) (lhs : E P) (rest : List (Item P))
    (h : ∀ o b r, rest = (o, b) :: r → prec o ≤ rbp) :
    expr.loop (g+1) rbp lhs (tailToks rest) = some (lhs, tailToks rest) := by
  unfold expr.loop
  rw [lbp_tail]
  cases rest with
  | nil => simp
  | cons x r =>
    obtain ⟨o, b⟩ := x
    have : ¬ rbp < prec o := by have := h o b r rfl; omega
    simp [this]

/-- an atom parsed at rbp ≥ 20 is just the atom -/
theorem expr_atom_hi (f rbp : Nat) (h : 20 ≤ rbp) (a : Atom P) (rest : List (Item P)) :
    expr (f + 3) rbp (atomToks a ++ tailToks rest) = some (atomE a, tailToks rest) := by
  have hp : ∀ (o : BOp), prec o ≤ 20 := by intro o; cases o <;> simp [prec]
  have hl : ∀ g r' lhs, 20 ≤ r' → expr.loop (g+1) r' lhs (tailToks rest) = some (lhs, tailToks rest) :=
    fun g r' lhs hr => loop_stop g r' lhs rest (fun o _ _ _ => by have := hp o; omega)
  cases hn : a.negd with
  | false => simp [atomToks, atomE, hn, expr, hl _ _ _ h]
  | true => simp [atomToks, atomE, hn, expr, hl _ _ _ h, hl _ 29 _ (by omega)]

/-- nud on an atom, then the loop -/
theorem nud_atom (g rbp : Nat) (a : Atom P) (rest : List (Item P)) :
    expr (g + 4) rbp (atomToks a ++ tailToks rest) = expr.loop (g + 3) rbp (atomE a) (tailToks rest) := by
  cases hn : a.negd with
  | false =>
    have h1 : atomToks a = [Tok.prim a.p] := by simp [atomToks, hn]
    have h2 : atomE a = .prim a.p := by simp [atomE, hn]
    rw [h1, h2]
    unfold expr
    simp
  | true =>
    have h29 : expr (g + 3) 29 (Tok.prim a.p :: tailToks rest) = some (.prim a.p, tailToks rest) := by
      have := expr_atom_hi (P := P) g 29 (by omega) ⟨false, a.p⟩ rest
      simpa [atomToks, atomE] using this
    have h1 : atomToks a = [Tok.neg, Tok.prim a.p] := by simp [atomToks, hn]
    have h2 : atomE a = .neg (.prim a.p) := by simp [atomE, hn]
    rw [h1, h2]
    unfold expr
    simp only [List.cons_append, List.nil_append]
    rw [h29]
    simp

/-! and-chains (what `expr _ 10` consumes) -/
def andItems (bs : List (Atom P)) : List (Item P) := bs.map (fun b => (BOp.and, b))
def chain (lhs : E P) (bs : List (Atom P)) : E P := bs.foldl (fun l b => .bin l .and (atomE b)) lhs

/-- `tl` does not start with `and` -/
def NoAndHead (tl : List (Item P)) : Prop := ∀ o b r, tl = (o, b) :: r → o = .or

theorem loop10 (bs : List (Atom P)) : ∀ (tl : List (Item P)) (lhs : E P) (f : Nat), NoAndHead tl →
    bs.length + 4 ≤ f →
    expr.loop f 10 lhs (tailToks (andItems bs ++ tl)) = some (chain lhs bs, tailToks tl) := by
  induction bs with
  | nil =>
    intro tl lhs f hna hf
    obtain ⟨g, rfl⟩ : ∃ g, f = g + 1 := ⟨f - 1, by omega⟩
    simp only [andItems, List.map_nil, List.nil_append, chain, List.foldl_nil]
    exact loop_stop g 10 lhs tl (fun o b r h => by rw [hna o b r h]; simp [prec])
  | cons b bs ih =>
    intro tl lhs f hna hf
    obtain ⟨g, rfl⟩ : ∃ g, f = g + 4 := ⟨f - 4, by simp at hf; omega⟩
    have hstep : expr (g + 3) 20 (atomToks b ++ tailToks (andItems bs ++ tl)) =
        some (atomE b, tailToks (andItems bs ++ tl)) := expr_atom_hi g 20 (by omega) b _
    have hrec := ih tl (.bin lhs .and (atomE b)) (g + 3) hna (by simp at hf; omega)
    show expr.loop (g + 3 + 1) 10 lhs (tailToks (andItems (b :: bs) ++ tl)) = _
    unfold expr.loop
    simp only [andItems, List.map_cons, List.cons_append, tailToks_cons, lbp, prec]
    simp only [show (10 : Nat) < 20 by omega, if_true]
    rw [show andItems bs = bs.map (fun b => (BOp.and, b)) from rfl] at hstep hrec
    rw [hstep]
    simp only [chain, List.foldl_cons]
    exact hrec

/-- `expr _ 10` on an atom followed by items consumes exactly the leading and-chain -/
theorem expr10 (a : Atom P) (bs : List (Atom P)) (tl : List (Item P)) (f : Nat) (hna : NoAndHead tl)
    (hf : bs.length + 8 ≤ f) :
    expr f 10 (atomToks a ++ tailToks (andItems bs ++ tl)) = some (chain (atomE a) bs, tailToks tl) := by
  obtain ⟨g, rfl⟩ : ∃ g, f = g + 4 := ⟨f - 4, by omega⟩
  rw [nud_atom]
  exact loop10 bs tl (atomE a) (g + 3) hna (by omega)

/-! splitting a tail into its leading and-chain and the rest -/
def splitAnds : List (Item P) → List (Atom P) × List (Item P)
  | (.and, b) :: r => let (bs, tl) := splitAnds r; (b :: bs, tl)
  | tl => ([], tl)

theorem splitAnds_spec (r : List (Item P)) :
    r = andItems (splitAnds r).1 ++ (splitAnds r).2 ∧ NoAndHead (splitAnds r).2 ∧
      (splitAnds r).1.length + (splitAnds r).2.length = r.length := by
  induction r with
  | nil => simp [splitAnds, andItems, NoAndHead]
  | cons x r ih =>
    obtain ⟨o, b⟩ := x
    cases o with
    | and =>
      simp only [splitAnds]
      refine ⟨?_, ih.2.1, ?_⟩
      · simp only [andItems, List.map_cons, List.cons_append]; congr 1; exact ih.1
      · simp; omega
    | or =>
      simp only [splitAnds]
      refine ⟨by simp [andItems], ?_, by simp⟩
      intro o' b' r' h; simp at h; exact h.1.1.symm

theorem dnf_chain (v : P → Bool) (acc : Bool) (bs : List (Atom P)) (tl : List (Item P)) :
    dnf v acc (andItems bs ++ tl) = dnf v (bs.foldl (fun x b => x && atomVal v b) acc) tl := by
  induction bs generalizing acc with
  | nil => simp [andItems]
  | cons b bs ih => simp only [andItems, List.map_cons, List.cons_append, dnf, List.foldl_cons]; exact ih _

theorem ev_chain (v : P → Bool) (lhs : E P) (bs : List (Atom P)) :
    ev v (chain lhs bs) = bs.foldl (fun x b => x && atomVal v b) (ev v lhs) := by
  induction bs generalizing lhs with
  | nil => rfl
  | cons b bs ih => simp only [chain, List.foldl_cons]; rw [← chain, ih]; simp [ev, ev_atomE]

theorem dnf_or_out (v : P → Bool) (x c : Bool) (tl : List (Item P)) (h : NoAndHead tl) :
    dnf v (x || c) tl = (x || dnf v c tl) := by
  cases tl with
  | nil => rfl
  | cons y r =>
    obtain ⟨o, b⟩ := y
    have := h o b r rfl; subst this
    simp [dnf, Bool.or_assoc]

/-- the top-level loop (rbp = 0): consumes everything; value = DNF meaning -/
theorem loop0 : ∀ (n : Nat) (rest : List (Item P)) (lhs : E P) (f : Nat), rest.length ≤ n →
    2 * rest.length + 10 ≤ f →
    ∃ e, expr.loop f 0 lhs (tailToks rest) = some (e, []) ∧ ∀ v, ev v e = dnf v (ev v lhs) rest := by
  intro n
  induction n with
  | zero =>
    intro rest lhs f hn hf
    have : rest = [] := List.eq_nil_of_length_eq_zero (by omega)
    subst this
    obtain ⟨g, rfl⟩ : ∃ g, f = g + 1 := ⟨f - 1, by omega⟩
    exact ⟨lhs, by simp [expr.loop, lbp], fun v => rfl⟩
  | succ n ih =>
    intro rest lhs f hn hf
    cases rest with
    | nil =>
      obtain ⟨g, rfl⟩ : ∃ g, f = g + 1 := ⟨f - 1, by omega⟩
      exact ⟨lhs, by simp [expr.loop, lbp], fun v => rfl⟩
    | cons x r =>
      obtain ⟨o, b⟩ := x
      obtain ⟨g, rfl⟩ : ∃ g, f = g + 1 := ⟨f - 1, by omega⟩
      simp only [List.length_cons] at hn hf
      cases o with
      | and =>
        have hstep : expr g 20 (atomToks b ++ tailToks r) = some (atomE b, tailToks r) := by
          obtain ⟨g', rfl⟩ : ∃ g', g = g' + 3 := ⟨g - 3, by omega⟩
          exact expr_atom_hi g' 20 (by omega) b r
        obtain ⟨e, he, hv⟩ := ih r (.bin lhs .and (atomE b)) g (by omega) (by omega)
        refine ⟨e, ?_, ?_⟩
        · unfold expr.loop
          simp only [tailToks_cons, lbp, prec, show (0 : Nat) < 20 by omega, if_true]
          rw [hstep]; exact he
        · intro v; rw [hv v]; simp [dnf, ev, ev_atomE]
      | or =>
        have sp := splitAnds_spec r
        generalize hbs : (splitAnds r).1 = bs at sp
        generalize htl : (splitAnds r).2 = tl at sp
        obtain ⟨hr, hna, hlen⟩ := sp
        have hstep : expr g 10 (atomToks b ++ tailToks (andItems bs ++ tl)) =
            some (chain (atomE b) bs, tailToks tl) := expr10 b bs tl g hna (by omega)
        obtain ⟨e, he, hv⟩ := ih tl (.bin lhs .or (chain (atomE b) bs)) g (by omega) (by omega)
        refine ⟨e, ?_, ?_⟩
        · unfold expr.loop
          simp only [tailToks_cons, lbp, prec, show (0 : Nat) < 10 by omega, if_true]
          rw [hr, hstep]; exact he
        · intro v
          rw [hv v]
          simp only [ev, dnf]
          rw [dnf_or_out v _ _ tl hna, hr, dnf_chain, ev_chain, ev_atomE]

/-- C02 core: any atom sequence `a₀ o₁ a₁ … oₙ aₙ` is parsed completely, without panic, and the AST's
    value is the disjunction of the conjunctions of the (possibly negated) atoms -/
theorem pratt_correct (a : Atom P) (rest : List (Item P)) :
    ∃ e, expr (2 * rest.length + 20) 0 (atomToks a ++ tailToks rest) = some (e, []) ∧
      ∀ v, ev v e = dnf v (atomVal v a) rest := by
  obtain ⟨e, he, hv⟩ := loop0 rest.length rest (atomE a) (2 * rest.length + 16 + 3) (Nat.le_refl _) (by omega)
  refine ⟨e, ?_, fun v => by rw [hv v, ev_atomE]⟩
  rw [show 2 * rest.length + 20 = (2 * rest.length + 16) + 4 by omega, nud_atom]
  exact he

-- `not $1 and $2 or $3 and not $4`
example : (expr 40 0 ([Tok.neg, .prim 1, .op .and, .prim 2, .op .or, .prim 3, .op .and, .neg, .prim 4] : List (Tok Nat))).isSome = true := by decide
end Pratt
