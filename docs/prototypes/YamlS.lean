/-! scratch prototype for C20: serde-like (de)serialisation of a slice of `Rule` over raw-scalar YAML trees:
    strictness (unknown / duplicate / missing key, bad type name, severity range) and the round trip -/
namespace YamlS

abbrev Str := List Char

inductive Yaml
  | scalar (text : Str) (plain : Bool)
  | seq (xs : List Yaml)
  | map (kvs : List (Yaml × Yaml))

inductive Err | notMap | badKey | unknown (k : Str) | dup (k : Str) | missing (k : Str) | badTy | range
  deriving DecidableEq, Repr

inductive RTy | detection | filter | dependency  deriving DecidableEq, Repr
structure Params where
  disable : Option Bool
  deriving DecidableEq, Repr
structure Rule where
  name : Str
  rty : Option RTy
  params : Option Params
  mtch : Option (List (Str × Str))     -- `matches`: unique-key map, iteration order = list order
  severity : Option Nat
  deriving DecidableEq, Repr

/-! ### generated schema facts (here written by hand; produced by the translator from rules.rs) -/
def ruleKeys : List Str := ["name".toList, "type".toList, "params".toList, "matches".toList, "severity".toList]
def paramsKeys : List Str := ["disable".toList]

/-! ### scalars as serde_yaml coerces them -/
def nullTexts : List Str := ["null".toList, "~".toList, [], "Null".toList, "NULL".toList]
def isNull : Yaml → Bool
  | .scalar t true => nullTexts.contains t
  | _ => false

def deStr : Yaml → Except Err Str
  | .scalar t _ => .ok t          -- any scalar, by its raw text
  | _ => .error .badTy

def deBool : Yaml → Except Err Bool
  | .scalar t true => if t = "true".toList then .ok true else if t = "false".toList then .ok false else .error .badTy
  | _ => .error .badTy

def deU8 (readNat : Str → Option Nat) : Yaml → Except Err Nat
  | .scalar t true => match readNat t with
    | some n => if n ≤ 255 then .ok n else .error .range
    | none => .error .badTy
  | _ => .error .badTy

def tyName : RTy → Str | .detection => "detection".toList | .filter => "filter".toList | .dependency => "dependency".toList
def deTy : Yaml → Except Err RTy
  | .scalar s _ =>
    if s = "detection".toList then .ok .detection
    else if s = "filter".toList then .ok .filter
    else if s = "dependency".toList then .ok .dependency
    else .error .badTy
  | _ => .error .badTy

/-! ### struct-from-map plumbing -/
def keyTexts : List (Yaml × Yaml) → Option (List Str)
  | [] => some []
  | (.scalar t _, _) :: r => match keyTexts r with | some ks => some (t :: ks) | none => none
  | _ => none

def firstUnknown (allowed : List Str) : List Str → Option Str
  | [] => none
  | k :: r => if allowed.contains k then firstUnknown allowed r else some k

def firstDup : List Str → Option Str
  | [] => none
  | k :: r => if r.contains k then some k else firstDup r

def field (kvs : List (Yaml × Yaml)) (k : Str) : Option Yaml :=
  match kvs with
  | [] => none
  | (.scalar t _, v) :: r => if t = k then some v else field r k
  | _ :: r => field r k

/-- `deny_unknown_fields` struct: map with scalar keys, all allowed, no duplicate -/
def openStruct (allowed : List Str) : Yaml → Except Err (List (Yaml × Yaml))
  | .map kvs =>
    match keyTexts kvs with
    | none => .error .badKey
    | some ks =>
      match firstUnknown allowed ks with
      | some k => .error (.unknown k)
      | none => match firstDup ks with
        | some k => .error (.dup k)
        | none => .ok kvs
  | _ => .error .notMap

/-- `Option<T>` field: missing or null ⇒ None -/
def optField {α : Type} (kvs : List (Yaml × Yaml)) (k : Str) (de : Yaml → Except Err α) : Except Err (Option α) :=
  match field kvs k with
  | none => .ok none
  | some y => if isNull y then .ok none else match de y with | .ok a => .ok (some a) | .error e => .error e

def deParams (y : Yaml) : Except Err Params :=
  match openStruct paramsKeys y with
  | .error e => .error e
  | .ok kvs => match optField kvs "disable".toList deBool with
    | .error e => .error e
    | .ok d => .ok ⟨d⟩

def dePairs : List (Yaml × Yaml) → Except Err (List (Str × Str))
  | [] => .ok []
  | (k, v) :: r =>
    match deStr k, deStr v, dePairs r with
    | .ok a, .ok b, .ok rest => .ok ((a, b) :: rest)
    | .error e, _, _ => .error e
    | _, .error e, _ => .error e
    | _, _, .error e => .error e

/-- `deserialize_uk_hashmap` -/
def deUkMap : Yaml → Except Err (List (Str × Str))
  | .map kvs =>
    match keyTexts kvs with
    | none => .error .badKey
    | some ks => match firstDup ks with
      | some k => .error (.dup k)
      | none => dePairs kvs
  | _ => .error .badTy

def deFields (readNat : Str → Option Nat) (kvs : List (Yaml × Yaml)) : Except Err Rule :=
  match field kvs "name".toList with
  | none => .error (.missing "name".toList)
  | some ny =>
    match deStr ny, optField kvs "type".toList deTy, optField kvs "params".toList deParams,
          optField kvs "matches".toList deUkMap, optField kvs "severity".toList (deU8 readNat) with
    | .ok name, .ok rty, .ok params, .ok mtch, .ok severity => .ok ⟨name, rty, params, mtch, severity⟩
    | .error e, _, _, _, _ => .error e
    | _, .error e, _, _, _ => .error e
    | _, _, .error e, _, _ => .error e
    | _, _, _, .error e, _ => .error e
    | _, _, _, _, .error e => .error e

def deRule (readNat : Str → Option Nat) (y : Yaml) : Except Err Rule :=
  match openStruct ruleKeys y with
  | .error e => .error e
  | .ok kvs => deFields readNat kvs

/-! ### serialisation (`skip_serializing_if = "Option::is_none"` on every optional field) -/
def str (s : Str) : Yaml := .scalar s false
def optEntry {α : Type} (k : Str) (v : Option α) (ser : α → Yaml) : List (Yaml × Yaml) :=
  match v with | none => [] | some a => [(.scalar k true, ser a)]

def serBool (b : Bool) : Yaml := .scalar (if b then "true".toList else "false".toList) true
def serParams (p : Params) : Yaml := .map (optEntry "disable".toList p.disable serBool)
def serUkMap (m : List (Str × Str)) : Yaml := .map (m.map (fun kv => (str kv.1, str kv.2)))
def serFields (showNat : Nat → Str) (r : Rule) : List (Yaml × Yaml) :=
  (.scalar "name".toList true, str r.name) ::
    (optEntry "type".toList r.rty (fun t => str (tyName t)) ++
     (optEntry "params".toList r.params serParams ++
      (optEntry "matches".toList r.mtch serUkMap ++
       optEntry "severity".toList r.severity (fun n => .scalar (showNat n) true))))
def serRule (showNat : Nat → Str) (r : Rule) : Yaml := .map (serFields showNat r)

/-! ### strictness -/
theorem firstUnknown_some (allowed ks : List Str) (k : Str) (hmem : k ∈ ks) (hun : allowed.contains k = false) :
    ∃ k', firstUnknown allowed ks = some k' := by
  induction ks with
  | nil => cases hmem
  | cons a r ih =>
    simp only [firstUnknown]
    cases ha : allowed.contains a with
    | true =>
      simp only [if_true]
      rcases List.mem_cons.mp hmem with rfl | h
      · rw [ha] at hun; cases hun
      · exact ih h
    | false => exact ⟨a, by simp⟩

/-- an unknown key anywhere in the top-level map is rejected, whatever else the document contains -/
theorem unknown_key_rejected (readNat : Str → Option Nat) (kvs : List (Yaml × Yaml)) (ks : List Str) (k : Str)
    (hk : keyTexts kvs = some ks) (hmem : k ∈ ks) (hun : ruleKeys.contains k = false) :
    ∃ e, deRule readNat (.map kvs) = .error e := by
  obtain ⟨k', hk'⟩ := firstUnknown_some ruleKeys ks k hmem hun
  exact ⟨.unknown k', by unfold deRule openStruct; simp only [hk, hk']⟩

theorem severity_range (readNat : Str → Option Nat) (t : Str) (n : Nat) (h : readNat t = some n) (hn : 255 < n) :
    deU8 readNat (.scalar t true) = .error .range := by
  have : ¬ n ≤ 255 := by omega
  simp [deU8, h, this]

theorem bad_type_rejected (t : Str) (p : Bool) (h1 : t ≠ "detection".toList) (h2 : t ≠ "filter".toList)
    (h3 : t ≠ "dependency".toList) : deTy (.scalar t p) = .error .badTy := by
  show (if t = "detection".toList then _ else _) = _
  rw [if_neg h1, if_neg h2, if_neg h3]

/-! ### round trip -/
theorem deTy_ser (t : RTy) : deTy (str (tyName t)) = .ok t := by cases t <;> rfl
theorem deBool_ser (b : Bool) : deBool (serBool b) = .ok b := by cases b <;> rfl

theorem deParams_ser (p : Params) : deParams (serParams p) = .ok p := by
  obtain ⟨d⟩ := p
  cases d with
  | none => rfl
  | some b => cases b <;> rfl

theorem keyTexts_ukmap (m : List (Str × Str)) :
    keyTexts (m.map (fun kv => (str kv.1, str kv.2))) = some (m.map (·.1)) := by
  induction m with
  | nil => rfl
  | cons a m ih => simp only [List.map_cons, str, keyTexts] at ih ⊢; rw [ih]

theorem firstDup_nodup (ks : List Str) (h : ks.Nodup) : firstDup ks = none := by
  induction ks with
  | nil => rfl
  | cons a r ih =>
    obtain ⟨h1, h2⟩ := List.nodup_cons.mp h
    simp [firstDup, h1, ih h2]

theorem dePairs_ukmap (m : List (Str × Str)) : dePairs (m.map (fun kv => (str kv.1, str kv.2))) = .ok m := by
  induction m with
  | nil => rfl
  | cons a m ih => simp only [List.map_cons, dePairs, deStr, str] at ih ⊢; rw [ih]

theorem deUkMap_ser (m : List (Str × Str)) (h : (m.map (·.1)).Nodup) : deUkMap (serUkMap m) = .ok m := by
  simp only [deUkMap, serUkMap, keyTexts_ukmap, firstDup_nodup _ h]
  exact dePairs_ukmap m

/-- what the round trip needs from the number printer/reader (proved for the real ones in NumParse) -/
def NatIO (showNat : Nat → Str) (readNat : Str → Option Nat) : Prop :=
  ∀ n, readNat (showNat n) = some n ∧ nullTexts.contains (showNat n) = false

theorem optField_none {α : Type} (kvs : List (Yaml × Yaml)) (k : Str) (de : Yaml → Except Err α)
    (h : field kvs k = none) : optField kvs k de = .ok none := by simp [optField, h]
theorem optField_some {α : Type} (kvs : List (Yaml × Yaml)) (k : Str) (de : Yaml → Except Err α) (y : Yaml) (a : α)
    (h : field kvs k = some y) (hn : isNull y = false) (hd : de y = .ok a) : optField kvs k de = .ok (some a) := by
  simp [optField, h, hn, hd]

theorem open_ser (showNat : Nat → Str) (r : Rule) :
    openStruct ruleKeys (serRule showNat r) = .ok (serFields showNat r) := by
  obtain ⟨name, rty, params, mtch, severity⟩ := r
  cases rty <;> cases params <;> cases mtch <;> cases severity <;> rfl

theorem field_name (showNat : Nat → Str) (r : Rule) : field (serFields showNat r) "name".toList = some (str r.name) := by
  simp [serFields, field]
theorem field_type (showNat : Nat → Str) (r : Rule) :
    field (serFields showNat r) "type".toList = r.rty.map (fun t => str (tyName t)) := by
  obtain ⟨name, rty, params, mtch, severity⟩ := r
  cases rty <;> cases params <;> cases mtch <;> cases severity <;> simp [serFields, field, optEntry]
theorem field_params (showNat : Nat → Str) (r : Rule) :
    field (serFields showNat r) "params".toList = r.params.map serParams := by
  obtain ⟨name, rty, params, mtch, severity⟩ := r
  cases rty <;> cases params <;> cases mtch <;> cases severity <;> simp [serFields, field, optEntry]
theorem field_matches (showNat : Nat → Str) (r : Rule) :
    field (serFields showNat r) "matches".toList = r.mtch.map serUkMap := by
  obtain ⟨name, rty, params, mtch, severity⟩ := r
  cases rty <;> cases params <;> cases mtch <;> cases severity <;> simp [serFields, field, optEntry]
theorem field_severity (showNat : Nat → Str) (r : Rule) :
    field (serFields showNat r) "severity".toList = r.severity.map (fun n => .scalar (showNat n) true) := by
  obtain ⟨name, rty, params, mtch, severity⟩ := r
  cases rty <;> cases params <;> cases mtch <;> cases severity <;> simp [serFields, field, optEntry]

/-- C20 round trip (tree level): serialise then deserialise gives back the rule -/
theorem roundtrip (showNat : Nat → Str) (readNat : Str → Option Nat) (hio : NatIO showNat readNat) (r : Rule)
    (hm : ∀ m, r.mtch = some m → (m.map (·.1)).Nodup) (hs : ∀ n, r.severity = some n → n ≤ 255) :
    deRule readNat (serRule showNat r) = .ok r := by
  unfold deRule
  rw [open_ser]
  simp only [deFields, field_name]
  have h1 : optField (serFields showNat r) "type".toList deTy = .ok r.rty := by
    cases h : r.rty with
    | none => exact optField_none _ _ _ (by rw [field_type, h]; rfl)
    | some t => exact optField_some _ _ _ (str (tyName t)) t (by rw [field_type, h]; rfl) rfl (deTy_ser t)
  have h2 : optField (serFields showNat r) "params".toList deParams = .ok r.params := by
    cases h : r.params with
    | none => exact optField_none _ _ _ (by rw [field_params, h]; rfl)
    | some p => exact optField_some _ _ _ (serParams p) p (by rw [field_params, h]; rfl) rfl (deParams_ser p)
  have h3 : optField (serFields showNat r) "matches".toList deUkMap = .ok r.mtch := by
    cases h : r.mtch with
    | none => exact optField_none _ _ _ (by rw [field_matches, h]; rfl)
    | some m => exact optField_some _ _ _ (serUkMap m) m (by rw [field_matches, h]; rfl) rfl (deUkMap_ser m (hm m h))
  have h4 : optField (serFields showNat r) "severity".toList (deU8 readNat) = .ok r.severity := by
    cases h : r.severity with
    | none => exact optField_none _ _ _ (by rw [field_severity, h]; rfl)
    | some n =>
      refine optField_some _ _ _ (.scalar (showNat n) true) n (by rw [field_severity, h]; rfl) ?_ ?_
      · have := (hio n).2; simp only [isNull]; exact this
      · simp [deU8, (hio n).1, hs n h]
  rw [h1, h2, h3, h4]
  simp [deStr, str]
end YamlS
