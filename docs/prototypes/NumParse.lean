/-! scratch prototype for C19/C04: Display and Number::parse for integers (values.rs:75-83,155-180);
    `parse (display n) = n` for every canonical integer -/
namespace NumParse

abbrev Str := List Char

/-! ### digits -/
def toDigitsRev : Nat → Nat → List Nat
  | 0, _ => []
  | f+1, n => if n < 10 then [n] else (n % 10) :: toDigitsRev f (n / 10)

def digits (n : Nat) : List Nat := (toDigitsRev (n + 1) n).reverse

def ofRev : List Nat → Nat
  | [] => 0
  | d :: r => d + 10 * ofRev r

def ofDigits (ds : List Nat) : Nat := ds.foldl (fun acc d => acc * 10 + d) 0

theorem ofRev_toDigitsRev : ∀ f n, n < f → ofRev (toDigitsRev f n) = n := by
  intro f
  induction f with
  | zero => intro n h; omega
  | succ f ih =>
    intro n h
    unfold toDigitsRev
    by_cases hn : n < 10
    · simp [hn, ofRev]
    · simp only [hn, if_false, ofRev]
      rw [ih (n / 10) (by omega)]; omega

theorem foldl_digits (l : List Nat) (acc : Nat) :
    l.foldl (fun a d => a * 10 + d) acc = acc * 10 ^ l.length + ofRev l.reverse := by
  induction l generalizing acc with
  | nil => simp [ofRev]
  | cons d l ih =>
    simp only [List.foldl_cons, List.reverse_cons, List.length_cons]
    rw [ih]
    have : ∀ (r : List Nat) (x : Nat), ofRev (r ++ [x]) = ofRev r + x * 10 ^ r.length := by
      intro r x; induction r with
      | nil => simp [ofRev]
      | cons y r ihr => simp only [List.cons_append, ofRev, ihr, List.length_cons, Nat.pow_succ]; rw [Nat.mul_add]; ac_rfl
    rw [this, List.length_reverse, Nat.pow_succ, Nat.add_mul]; ac_rfl

theorem ofDigits_digits (n : Nat) : ofDigits (digits n) = n := by
  unfold ofDigits digits
  rw [foldl_digits]; simp [ofRev_toDigitsRev (n + 1) n (by omega)]

theorem toDigitsRev_lt10 : ∀ f n d, d ∈ toDigitsRev f n → d < 10 := by
  intro f
  induction f with
  | zero => intro n d h; simp [toDigitsRev] at h
  | succ f ih =>
    intro n d h
    unfold toDigitsRev at h
    by_cases hn : n < 10
    · simp [hn] at h; omega
    · simp only [hn, if_false, List.mem_cons] at h
      rcases h with h | h
      · omega
      · exact ih _ _ h

theorem toDigitsRev_ne_nil (f n : Nat) : toDigitsRev (f + 1) n ≠ [] := by
  unfold toDigitsRev; split <;> simp

theorem digits_lt10 (n d : Nat) (h : d ∈ digits n) : d < 10 :=
  toDigitsRev_lt10 _ _ d (by simpa [digits] using h)
theorem digits_ne_nil (n : Nat) : digits n ≠ [] := by
  simp [digits, toDigitsRev_ne_nil]

/-! ### characters -/
def dch (d : Nat) : Char := Char.ofNat (48 + d)
def isDig (c : Char) : Bool := 48 ≤ c.toNat && c.toNat ≤ 57
def dval (c : Char) : Nat := c.toNat - 48

theorem dch_spec (d : Nat) (h : d < 10) : isDig (dch d) = true ∧ dval (dch d) = d := by
  have : d = 0 ∨ d = 1 ∨ d = 2 ∨ d = 3 ∨ d = 4 ∨ d = 5 ∨ d = 6 ∨ d = 7 ∨ d = 8 ∨ d = 9 := by omega
  rcases this with rfl | rfl | rfl | rfl | rfl | rfl | rfl | rfl | rfl | rfl <;> decide

def showNat (n : Nat) : Str := (digits n).map dch

/-- Rust `uN::from_str` on the digits part (no sign): non-empty, all ASCII digits, value ≤ max -/
def parseDigits (max : Nat) (s : Str) : Option Nat :=
  if s.isEmpty || !s.all isDig then none
  else let v := ofDigits (s.map dval); if v ≤ max then some v else none

theorem parseDigits_showNat (max n : Nat) (h : n ≤ max) : parseDigits max (showNat n) = some n := by
  unfold parseDigits showNat
  have hne : ((digits n).map dch).isEmpty = false := by
    cases hd : digits n with
    | nil => exact absurd hd (digits_ne_nil n)
    | cons _ _ => rfl
  have hall : ((digits n).map dch).all isDig = true := by
    rw [List.all_eq_true]; intro c hc
    obtain ⟨d, hd, rfl⟩ := List.mem_map.mp hc
    exact (dch_spec d (digits_lt10 n d hd)).1
  have hval : ((digits n).map dch).map dval = digits n := by
    rw [List.map_map]
    have : ∀ d ∈ digits n, (dval ∘ dch) d = id d := fun d hd => (dch_spec d (digits_lt10 n d hd)).2
    rw [List.map_congr_left this]; simp
  simp [hne, hall, hval, ofDigits_digits, h]

theorem showNat_all (n : Nat) : ∀ c ∈ showNat n, isDig c = true := by
  intro c hc
  obtain ⟨d, hd, rfl⟩ := List.mem_map.mp hc
  exact (dch_spec d (digits_lt10 n d hd)).1

theorem showNat_ne_nil (n : Nat) : showNat n ≠ [] := by
  simp [showNat, digits_ne_nil]

/-! ### Number (integers) -/
inductive Num | int (v : Int) | uint (v : Nat)  deriving DecidableEq, Repr

/-- produced by `From<iN>/From<uN>`/`parse`: `Int` holds exactly the negative i64, `Uint` the u64 -/
def Num.canonical : Num → Prop
  | .int v => -(2:Int)^63 ≤ v ∧ v < 0
  | .uint v => v < 2^64

def display : Num → Str
  | .uint v => showNat v
  | .int v => if v < 0 then '-' :: showNat v.natAbs else showNat v.toNat

def fromI64 (v : Int) : Num := if v < 0 then .int v else .uint v.toNat

/-- `u64::from_str` / `i64::from_str` (optional sign, digits, range) -/
def parseU64 : Str → Option Nat
  | '+' :: r => parseDigits (2^64 - 1) r
  | s => parseDigits (2^64 - 1) s
def parseI64 : Str → Option Int
  | '-' :: r => match parseDigits (2^63) r with | some n => some (-(Int.ofNat n)) | none => none
  | '+' :: r => match parseDigits (2^63 - 1) r with | some n => some (Int.ofNat n) | none => none
  | s => match parseDigits (2^63 - 1) s with | some n => some (Int.ofNat n) | none => none

inductive PErr | hex | float  deriving DecidableEq, Repr
/-- Number::parse; the hex and float branches are left abstract in this prototype -/
def parse (s : Str) : Except PErr (Option Num) :=
  if "0x".toList.isPrefixOf s then .error .hex
  else if s.head? = some '-' then
    if s.contains '.' then .error .float else .ok ((parseI64 s).map fromI64)
  else if s.contains '.' then .error .float
  else .ok ((parseU64 s).map Num.uint)

theorem isDig_facts : isDig 'x' = false ∧ isDig '.' = false ∧ isDig '-' = false ∧ isDig '+' = false := by decide

theorem showNat_not_hex (n : Nat) : "0x".toList.isPrefixOf (showNat n) = false := by
  have hall := showNat_all n
  cases h : showNat n with
  | nil => rfl
  | cons a r =>
    cases r with
    | nil => simp [List.isPrefixOf]
    | cons b r' =>
      have hb : isDig b = true := hall b (by simp [h])
      have : b ≠ 'x' := by intro hx; subst hx; simp [isDig_facts.1] at hb
      simp [List.isPrefixOf]; intro _ hx; exact this hx.symm

theorem showNat_no_dot (n : Nat) : (showNat n).contains '.' = false := by
  cases hc : (showNat n).contains '.' with
  | false => rfl
  | true =>
    have : '.' ∈ showNat n := by simpa using hc
    have := showNat_all n '.' this
    simp [isDig_facts.2.1] at this

theorem showNat_head (n : Nat) : ∃ a r, showNat n = a :: r ∧ isDig a = true := by
  cases h : showNat n with
  | nil => exact absurd h (showNat_ne_nil n)
  | cons a r => exact ⟨a, r, rfl, showNat_all n a (by simp [h])⟩

/-- C19: parsing the printed form of any integer gives back the same number -/
theorem parse_display (n : Num) (h : n.canonical) : parse (display n) = .ok (some n) := by
  cases n with
  | uint v =>
    obtain ⟨a, r, har, ha⟩ := showNat_head v
    have hminus : a ≠ '-' := by intro hx; subst hx; simp [isDig_facts.2.2.1] at ha
    have hplus : a ≠ '+' := by intro hx; subst hx; simp [isDig_facts.2.2.2] at ha
    have hp : parseU64 (showNat v) = some v := by
      have := parseDigits_showNat (2^64 - 1) v (by simp [Num.canonical] at h; omega)
      rw [har] at this ⊢
      unfold parseU64
      split
      · rename_i heq; simp at heq; exact absurd heq.1 hplus
      · exact this
    unfold parse display
    simp only [showNat_not_hex, Bool.false_eq_true, if_false, showNat_no_dot]
    rw [har]; simp only [List.head?_cons, Option.some.injEq, hminus, if_false]
    rw [← har, hp]; rfl
  | int v =>
    obtain ⟨h1, h2⟩ := h
    obtain ⟨a, r, har, ha⟩ := showNat_head v.natAbs
    have hp : parseI64 ('-' :: showNat v.natAbs) = some v := by
      have e1 : (2:Int)^63 = 9223372036854775808 := by decide
      have e2 : (2:Nat)^63 = 9223372036854775808 := by decide
      have hb : v.natAbs ≤ 2^63 := by rw [e2]; rw [e1] at h1; omega
      have := parseDigits_showNat (2^63) v.natAbs hb
      simp only [parseI64, this]
      congr 1
      have : Int.ofNat v.natAbs = (v.natAbs : Int) := rfl
      rw [this]; omega
    unfold parse display
    simp only [h2, if_true]
    have nothex : "0x".toList.isPrefixOf ('-' :: showNat v.natAbs) = false := by simp [List.isPrefixOf]
    have nodot : ('-' :: showNat v.natAbs).contains '.' = false := by
      simp only [List.contains_cons]
      rw [showNat_no_dot]; decide
    simp only [nothex, nodot, Bool.false_eq_true, if_false, List.head?_cons, if_true, hp, Option.map_some]
    simp [fromI64, h2]

example : parse (display (.int (-9223372036854775808))) = .ok (some (.int (-9223372036854775808))) :=
  parse_display _ (by simp [Num.canonical])
example : display (.uint 18446744073709551615) = "18446744073709551615".toList := by decide
end NumParse
